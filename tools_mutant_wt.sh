#!/bin/sh
# usage: tools_mutant_wt.sh <abs patch.diff> <check args...>
# like tools_mutant.sh but applies the patch in a scratch worktree (FBV_REPO) so /repo stays untouched
P="$1"; shift
WT=$(mktemp -d /tmp/fbv_mwt_XXXXXX); OUT=$(mktemp -d /tmp/fbv_mout_XXXXXX)
git -C /repo worktree add -q --detach -f "$WT" HEAD || exit 3
git -C "$WT" apply "$P" || { echo "patch does not apply"; git -C /repo worktree remove --force "$WT"; rm -rf "$OUT"; exit 3; }
cd /verif && FBV_REPO="$WT" FBV_OUT_DIR="$OUT" PYTHONPATH="/verif:$WT" ./check "$@"; rc=$?
git -C /repo worktree remove --force "$WT"; rm -rf "$WT" "$OUT"
echo "exit=$rc"
