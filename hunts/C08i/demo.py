#!/usr/bin/env python
"""C08 demo: a duplicate that is *implied* by reusing a cached subtree is
rejected with RuntimeError - but only after the output file of the first
(successful, already finished) build_file call for the same path has been
moved away.

History
  build 1: root calls subbuild('q', q, G).  q calls build_file(G, 'g', gfunc,
           'fail'); gfunc raises ValueError, q catches it and returns a
           string.  The cache now holds q with a nested build_file(G) record
           that "raised".
  build 2: thread T1 calls subbuild('q', q, G) (cached, nothing changed).
           Thread T2 calls build_file(G, 'g', gfunc, 'ok').
           Schedule: T1 finishes its cache lookup (G not claimed yet, so q is
           reusable), then T2 runs build_file(G) to completion (G written,
           call returns 'built'), then T1 continues with
           _use_cached_operation.

Expected (property C08): T1's subbuild implies a second build_file for G, so
it raises RuntimeError "without disturbing the output ... of the first call".
Observed: T1 raises RuntimeError, but before that _apply_cached_suboperations
moved T2's finished output file G into the backup directory; the build
commits with G recorded as created while the file is gone.

The interleaving is forced by wrapping FileBuilder._use_cached_operation so
that T1 waits there; apart from waiting the wrapped call is unchanged.
"""
import os
import shutil
import sys
import tempfile
import threading

sys.path.insert(0, os.environ.get('FB_PATH', '/tmp/wt_C08i'))
from file_builder import FileBuilder  # noqa: E402

calls = {'g_ok': 0, 'g_fail': 0, 'q': 0}


def gfunc(builder, filename, mode):
    if mode == 'fail':
        calls['g_fail'] += 1
        raise ValueError('gfunc was asked to fail')
    calls['g_ok'] += 1
    with open(filename, 'w') as file_:
        file_.write('ok-content')
    return 'built'


def q(builder, g_filename):
    calls['q'] += 1
    try:
        builder.build_file(g_filename, 'g', gfunc, 'fail')
    except ValueError:
        return 'q caught ValueError'
    except RuntimeError:
        return 'q caught RuntimeError'
    return 'q: no exception'


def main():
    root = tempfile.mkdtemp(prefix='c08i_')
    problems = []
    try:
        cache = os.path.join(root, 'cache.gz')
        out_dir = os.path.join(root, 'out')
        os.mkdir(out_dir)
        g_filename = os.path.join(out_dir, 'g.txt')

        # ---- build 1 -----------------------------------------------------
        def root1(builder):
            return builder.subbuild('q', q, g_filename)
        result1 = FileBuilder.build(cache, 'demo', root1)
        assert result1 == 'q caught ValueError', result1
        assert not os.path.exists(g_filename)

        # ---- build 2 -----------------------------------------------------
        reached = threading.Event()
        proceed = threading.Event()
        state = {'t1': None}
        original = FileBuilder._use_cached_operation

        def waiting_use_cached_operation(self, operation, cached_operation):
            if threading.current_thread() is state['t1']:
                reached.set()
                proceed.wait(30)
            return original(self, operation, cached_operation)

        outcome = {}

        def root2(builder):
            def t1_body():
                try:
                    outcome['t1'] = (
                        'returned', builder.subbuild('q', q, g_filename))
                except Exception as exception:
                    outcome['t1'] = (
                        type(exception).__name__, str(exception))
                finally:
                    reached.set()

            t1 = threading.Thread(target=t1_body)
            state['t1'] = t1
            t1.start()
            # Wait until T1 has finished its cache lookup for q (or, in a
            # library that behaves differently, until T1 is done)
            reached.wait(30)
            try:
                outcome['t2'] = (
                    'returned',
                    builder.build_file(g_filename, 'g', gfunc, 'ok'))
            except Exception as exception:
                outcome['t2'] = (type(exception).__name__, str(exception))
            if outcome['t2'][0] == 'returned':
                outcome['g_after_first_call'] = (
                    open(g_filename).read()
                    if os.path.isfile(g_filename) else None)
            proceed.set()
            t1.join()
            return 'root done'

        FileBuilder._use_cached_operation = waiting_use_cached_operation
        try:
            FileBuilder.build(cache, 'demo', root2)
        finally:
            FileBuilder._use_cached_operation = original

        print('T2 build_file(G, ok)  ->', outcome.get('t2'))
        print('T1 subbuild(q)        ->', outcome.get('t1'))
        print('calls:', calls)

        if outcome.get('t2') == ('returned', 'built'):
            # T2's build_file was the first call for G and succeeded. Whatever
            # happens to T1's implied duplicate, G must keep T2's output.
            if outcome.get('g_after_first_call') != 'ok-content':
                problems.append(
                    'G did not hold the output right after the first call '
                    'returned: {!r}'.format(outcome.get('g_after_first_call')))
            if not os.path.isfile(g_filename):
                problems.append(
                    'build_file(G) returned {!r} and the build committed, but '
                    'the output file {} is gone: the rejected duplicate '
                    '(T1: {!r}) moved it away'.format(
                        outcome['t2'][1], g_filename, outcome.get('t1')))
            elif open(g_filename).read() != 'ok-content':
                problems.append(
                    'the output of the first build_file(G) call was '
                    'changed: {!r}'.format(open(g_filename).read()))
            if calls['g_ok'] != 1:
                problems.append(
                    'gfunc(ok) was called {} times'.format(calls['g_ok']))

            # ---- build 3: the record of the first call must be reusable ----
            before = calls['g_ok']

            def root3(builder):
                return builder.build_file(g_filename, 'g', gfunc, 'ok')
            FileBuilder.build(cache, 'demo', root3)
            if calls['g_ok'] != before:
                problems.append(
                    'build 3 had to rebuild G although nothing changed since '
                    'the first call of build 2 built and recorded it')
        else:
            # T1 won the race to claim G (not the schedule we wanted); then
            # T2 must be the rejected one and G must not exist
            print('note: T2 was not the first call; schedule not reached')
    finally:
        shutil.rmtree(root, ignore_errors=True)

    if problems:
        print('C08 VIOLATED:')
        for problem in problems:
            print(' -', problem)
        return 1
    print('OK: no violation observed')
    return 0


if __name__ == '__main__':
    sys.exit(main())
