#!/usr/bin/env python
"""C09 demo: _make_dirs' cleanup after a failed mkdir removes / orphans a
directory that another thread already relies on.

Thread T1 calls build_file(<root>/out/<name longer than 255 bytes>/a.txt).  That
call is bound to fail with OSError(ENAMETOOLONG) in _make_dirs - sequentially it
fails cleanly and leaves nothing behind.  Thread T2 calls
build_file(<root>/out/b.txt), which is independent of T1's call and succeeds in
every sequential order.

Forced schedule (only waiting is added, no call is altered):
  T1: os.mkdir(out) succeeds                      -> T1 waits
  T2: sees that out exists, reserves it, and enters its build function
  variant A: T2 waits inside its function (before writing)
  variant B: T2 writes out/b.txt and its build_file call returns
  T1: os.mkdir(out/<long>) fails; _make_dirs "removes the directories it
      created" -> os.rmdir(out)
  variant A: rmdir succeeds; T2's function then cannot create out/b.txt:
             FileNotFoundError although build_file promises the parent dirs
  variant B: rmdir fails silently; 'out' stays, but nobody recorded it as
             created: the cache's created directories lack it and clean()
             leaves the empty directory 'out' behind
"""
import gzip
import json
import logging
import os
import shutil
import sys
import tempfile
import threading

sys.path.insert(0, os.environ.get('FB_PATH', '/tmp/wt_C09h'))
from file_builder import FileBuilder  # noqa: E402

logging.disable(logging.CRITICAL)
LONG = 'L' * 300
TIMEOUT = 20


def write_file(builder, filename, gate=None):
    if gate is not None:
        gate()
    with open(filename, 'w') as file_:
        file_.write('contents')
    return 'built'


def call(builder, results, key, filename, gate=None):
    try:
        results[key] = ('ok', builder.build_file(
            filename, 'write_file', lambda b, f: write_file(b, f, gate)))
    except Exception as exception:
        results[key] = ('exc', type(exception).__name__)


def snapshot(root):
    entries = []
    for dir_, subdirs, subfiles in os.walk(root):
        for name in subdirs + subfiles:
            entries.append(os.path.relpath(os.path.join(dir_, name), root))
    return sorted(entries)


def created_dirs(root, cache_filename):
    with gzip.open(cache_filename, 'rt') as file_:
        return sorted(
            os.path.relpath(dir_, root)
            for dir_ in json.load(file_)['createdDirs'])


def run(mode):
    """mode: 'seq12', 'seq21', 'A' or 'B'.  Returns the observations."""
    root = tempfile.mkdtemp(prefix='c09h_')
    real_mkdir = os.mkdir
    try:
        cache_filename = os.path.join(root, 'cache.gz')
        out = os.path.join(root, 'out')
        file1 = os.path.join(out, LONG, 'a.txt')
        file2 = os.path.join(out, 'b.txt')
        results = {}
        out_made = threading.Event()
        t2_arrived = threading.Event()
        t1_done = threading.Event()

        def mkdir(path, *args, **kwargs):
            real_mkdir(path, *args, **kwargs)
            if (path == out and
                    threading.current_thread().name == 'T1'):
                # T1 has just created 'out'; let T2 run
                out_made.set()
                t2_arrived.wait(TIMEOUT)

        def gate_a():
            # T2 is inside its build function; let T1 finish first
            t2_arrived.set()
            t1_done.wait(TIMEOUT)

        def build_func(builder):
            if mode == 'seq12':
                call(builder, results, 'T1', file1)
                call(builder, results, 'T2', file2)
            elif mode == 'seq21':
                call(builder, results, 'T2', file2)
                call(builder, results, 'T1', file1)
            else:
                def t1():
                    call(builder, results, 'T1', file1)
                    t1_done.set()

                def t2():
                    out_made.wait(TIMEOUT)
                    call(
                        builder, results, 'T2', file2,
                        gate_a if mode == 'A' else None)
                    t2_arrived.set()

                threads = [
                    threading.Thread(target=t1, name='T1'),
                    threading.Thread(target=t2, name='T2')]
                os.mkdir = mkdir
                try:
                    for thread in threads:
                        thread.start()
                    for thread in threads:
                        thread.join()
                finally:
                    os.mkdir = real_mkdir

        FileBuilder.build(cache_filename, 'demo', build_func)
        observed = {
            'results': results,
            'after_build': snapshot(root),
            'created_dirs': created_dirs(root, cache_filename),
        }
        FileBuilder.clean(cache_filename, 'demo')
        observed['after_clean'] = snapshot(root)
        return observed
    finally:
        os.mkdir = real_mkdir
        shutil.rmtree(root, ignore_errors=True)


def main():
    sequential = [run('seq12'), run('seq21')]
    for observed in sequential:
        print('sequential :', observed)
    problems = []
    for mode in ('A', 'B'):
        observed = run(mode)
        print('schedule {:s} :'.format(mode), observed)
        if observed not in sequential:
            for key in sorted(observed):
                if all(observed[key] != s[key] for s in sequential):
                    problems.append(
                        'schedule {:s}: {:s} = {!r}, but every sequential '
                        'order gives {!r}'.format(
                            mode, key, observed[key], sequential[0][key]))
    if problems:
        print('C09 VIOLATED:')
        for problem in problems:
            print('  ' + problem)
        return 1
    print('concurrent runs match a sequential run')
    return 0


if __name__ == '__main__':
    sys.exit(main())
