"""C16: a dict returned by a subbuild / build_file function does not survive the
cache write/read cycle unchanged: Cache.write() serialises the cache with
json.dumps(..., sort_keys=True), so every dict that is served from the cache
in the next build has its keys re-ordered alphabetically, whereas the value
that was originally returned (JsonUtil.sanitize, documented as
json.loads(json.dumps(value))) keeps the insertion order.

Python dicts are ordered, so this is observable by a perfectly functional and
deterministic build function: an output file that is rebuilt from a cached
subbuild value gets different contents than the same build run from scratch.

Exit status 1 = property violated, 0 = fine.
"""
import json
import os
import shutil
import sys
import tempfile

sys.path.insert(0, os.environ.get('FB_PATH', '/tmp/wt_C16i'))
from file_builder import FileBuilder  # noqa: E402


def scan(builder, input_filename):
    """Subbuild: count the words of the input file, in order of appearance."""
    counts = {}
    with builder.read_text(input_filename) as file_:
        for word in file_.read().split():
            counts[word] = counts.get(word, 0) + 1
    # A nested dict as well, to show that it happens at every nesting level
    return {'words': counts, 'meta': {'zz': 1, 'aa': [{'y': 1, 'b': 2}]}}


def report(builder, output_filename, input_filename, title):
    """build_file function: write one line per word, in the order of the dict
    returned by the subbuild. Functional and deterministic."""
    result = builder.subbuild('scan', scan, input_filename)
    with open(output_filename, 'w') as file_:
        file_.write(title + '\n')
        for word, count in result['words'].items():
            file_.write('{:s} {:d}\n'.format(word, count))
    return result


def root(builder, dir_, title):
    return builder.build_file(
        os.path.join(dir_, 'out', 'report.txt'), 'report', report,
        os.path.join(dir_, 'input.txt'), title)


def make_project(parent, name):
    dir_ = os.path.join(parent, name)
    os.mkdir(dir_)
    with open(os.path.join(dir_, 'input.txt'), 'w') as file_:
        file_.write('zeta alpha zeta mid beta\n')
    return dir_


def read(filename):
    with open(filename) as file_:
        return file_.read()


def main():
    problems = []
    temp_dir = tempfile.mkdtemp()
    try:
        # --- Project A: built incrementally (two committed builds) ---------
        dir_a = make_project(temp_dir, 'a')
        cache_a = os.path.join(dir_a, 'cache.gz')
        original = FileBuilder.build(cache_a, 'demo', root, dir_a, 'Title 1')
        # Only the title (an argument of the build_file call) changes, so
        # report.txt is rebuilt while the 'scan' subbuild is served from the
        # cache file written by the first build
        cached = FileBuilder.build(cache_a, 'demo', root, dir_a, 'Title 2')
        report_a = read(os.path.join(dir_a, 'out', 'report.txt'))

        # --- Project B: identical input, final build run from scratch -------
        dir_b = make_project(temp_dir, 'b')
        cache_b = os.path.join(dir_b, 'cache.gz')
        scratch = FileBuilder.build(cache_b, 'demo', root, dir_b, 'Title 2')
        report_b = read(os.path.join(dir_b, 'out', 'report.txt'))

        # 1. The value served from the cache is not the value originally
        #    returned: its JSON serialisation / key order differs.
        if json.dumps(original) != json.dumps(cached):
            problems.append(
                'value served from the cache differs from the value '
                'originally returned:\n    original: {:s}\n    cached:   '
                '{:s}'.format(json.dumps(original), json.dumps(cached)))
        if json.dumps(scratch) != json.dumps(cached):
            problems.append(
                'incremental build returned a different value than the '
                'from-scratch build:\n    scratch: {:s}\n    cached:  '
                '{:s}'.format(json.dumps(scratch), json.dumps(cached)))

        # 2. Consequence: the output file of the incremental build differs
        #    from the output file of the from-scratch build.
        if report_a != report_b:
            problems.append(
                'report.txt of the incremental build differs from the '
                'from-scratch build:\n    incremental: {!r}\n    '
                'from scratch: {!r}'.format(report_a, report_b))
    finally:
        shutil.rmtree(temp_dir, ignore_errors=True)

    if problems:
        print('C16 VIOLATED')
        for problem in problems:
            print(' - ' + problem)
        return 1
    print('ok: cached values and outputs are identical to the originals')
    return 0


if __name__ == '__main__':
    sys.exit(main())
