#!/usr/bin/env python
"""C04 demo: is_file() races with a concurrent build_file() that raises.

Thread A calls builder.is_file(F) for an output file F that nobody has built
yet.  Thread B calls builder.build_file(F, func); func writes F and raises.

SimpleOperationExecutor.is_file first consults the virtual state
(_is_file_no_read -> "don't know, look at the disk"), then calls
os.path.isfile(F) and, if that is true, registers the parent directory as an
existing (foreign) directory - without looking at the virtual state again.  If
thread B claims, writes and fails F in between,

 1. is_file(F) returns True although F's function never returned successfully
    (no sequential order of the two calls can answer True), and
 2. the directories that build_file created for F and virtually removed again
    when func raised are resurrected: from then on - with all threads joined
    and nothing running - is_dir/exists/list_dir/walk report them as existing
    directories, although a from-scratch run never shows them after the failed
    call.

The interleaving is forced from the outside by wrapping os.path.isfile: the
wrapper only waits (in thread A, for the path F); apart from that it calls the
original function and returns its result.  All waits have timeouts, so the
demo also terminates on a library that synchronizes differently.

Exit status 1 and a report if the property is violated, 0 otherwise.
"""
import logging
import os
import shutil
import sys
import tempfile
import threading

sys.path.insert(0, os.environ.get('FB_PATH', '/tmp/wt_C04j'))
from file_builder import FileBuilder  # noqa: E402

logging.disable(logging.CRITICAL)

TIMEOUT = 5


def run(top, force_schedule):
    """Run the build once; return the observations."""
    cache = os.path.join(top, 'cache.json')
    d = os.path.join(top, 'd')
    sub = os.path.join(d, 'sub')
    target = os.path.join(sub, 'f.txt')

    a_at_isfile = threading.Event()   # A is about to look at the disk
    b_has_written = threading.Event()  # B's function has written F
    a_has_looked = threading.Event()  # A has seen F on the disk
    b_has_failed = threading.Event()  # B's build_file call has raised
    state = {'waited': False}
    obs = {}

    real_isfile = os.path.isfile

    def waiting_isfile(path):
        if (force_schedule and not state['waited'] and
                threading.current_thread().name == 'query-thread' and
                os.path.abspath(os.fsdecode(path)) == target):
            state['waited'] = True
            a_at_isfile.set()
            b_has_written.wait(TIMEOUT)
            result = real_isfile(path)
            a_has_looked.set()
            b_has_failed.wait(TIMEOUT)
            return result
        return real_isfile(path)

    def failing_func(builder, filename):
        with open(filename, 'w') as file_:
            file_.write('half written')
        b_has_written.set()
        if force_schedule:
            a_has_looked.wait(TIMEOUT)
        raise ValueError('the build function fails after writing')

    def query_thread(builder):
        obs['concurrent is_file(F)'] = builder.is_file(target)

    def build_thread(builder):
        if force_schedule:
            a_at_isfile.wait(TIMEOUT)
        try:
            builder.build_file(target, 'failing_func', failing_func)
            obs['build_file(F)'] = 'returned'
        except ValueError:
            obs['build_file(F)'] = 'raised ValueError'
        finally:
            b_has_failed.set()

    def root(builder):
        obs['before: exists(d)'] = builder.exists(d)
        thread_a = threading.Thread(
            target=query_thread, args=(builder,), name='query-thread')
        thread_b = threading.Thread(
            target=build_thread, args=(builder,), name='build-thread')
        if force_schedule:
            thread_a.start()
            thread_b.start()
        else:
            # Sequential reference: the failed call first, then the query
            thread_b.start()
            thread_b.join()
            thread_a.start()
        thread_a.join()
        thread_b.join()

        # Everything has settled: no thread is running any more
        obs['after: is_file(F)'] = builder.is_file(target)
        obs['after: is_dir(d/sub)'] = builder.is_dir(sub)
        obs['after: is_dir(d)'] = builder.is_dir(d)
        obs['after: exists(d)'] = builder.exists(d)
        obs['after: list_dir(top)'] = sorted(builder.list_dir(top))
        obs['after: walk(top)'] = sorted(
            (os.path.relpath(dir_, top), sorted(subdirs), sorted(subfiles))
            for dir_, subdirs, subfiles in builder.walk(top))
        try:
            builder.list_dir(d)
            obs['after: list_dir(d)'] = 'returned'
        except OSError as exception:
            obs['after: list_dir(d)'] = exception.__class__.__name__

    os.path.isfile = waiting_isfile
    try:
        FileBuilder.build(cache, 'demo', root)
    finally:
        os.path.isfile = real_isfile
    return obs


def main():
    base = tempfile.mkdtemp(prefix='c04j_')
    try:
        top_ref = os.path.join(base, 'ref')
        top_run = os.path.join(base, 'run')
        os.mkdir(top_ref)
        os.mkdir(top_run)
        # What every sequential order answers once the failed call is over
        expected = run(top_ref, False)
        actual = run(top_run, True)
    finally:
        shutil.rmtree(base, ignore_errors=True)

    problems = []
    for key in sorted(expected):
        if expected[key] != actual.get(key):
            problems.append(
                '{:s}: got {!r}, a sequential / from-scratch run answers '
                '{!r}'.format(key, actual.get(key), expected[key]))
    # Independently of the reference run: F's function never returned
    # successfully, so F and the directories created for it must not exist
    if actual.get('concurrent is_file(F)') is not False:
        problems.append(
            'is_file(F) answered True although the function building F '
            'never returned successfully (it was running, then it raised)')
    if actual.get('after: is_dir(d)') is not False:
        problems.append(
            'after the failed build_file call has finished and all threads '
            'are joined, the directory created only for the failed output '
            'is still reported as existing')

    if problems:
        print('C04 VIOLATED:')
        for problem in problems:
            print('  - ' + problem)
        return 1
    print('ok: the virtual view matches the from-scratch view')
    return 0


if __name__ == '__main__':
    sys.exit(main())
