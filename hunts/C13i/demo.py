"""C13 demo: a HASH read records a stale hash taken from the per-build hash
cache, so a later content change of the file that is read goes undetected.

SimpleOperationExecutor._file_hash caches the SHA-256 of a file under the
*name* that was passed in, and only invalidates the entry when a build_file
call for that very name starts.  If the same file is reachable under a second
name (here: a symbolic link, which FileBuilder explicitly follows), building
the file does not invalidate the entry of the second name.  A read_text(...,
FileComparison.HASH) through the second name after the file was built then
records the hash of the contents from *before* the build_file call, although
the function reads the new contents.

History (single thread, no faults, public API only):

  files:   data.txt = "v0" (hand written), other.txt = "v0",
           current -> data.txt (symbolic link)
  build 1: before = subbuild(read current, HASH)     -> "v0"
           build_file(data.txt) writes "v1"          (overwrites data.txt)
           after  = subbuild(read current, HASH)     -> "v1"
           The read in "after" is recorded with sha256("v0") - stale.
  user:    re-points the link: current -> other.txt  (contents "v0")
  build 2: same build function.  "after" now has to read "v0", i.e. the
           contents of the file it reads changed from "v1" to "v0".  With HASH
           this must be detected.  But sha256("v0") equals the stale recorded
           value, so the cached result "v1" is reused.
"""
import os
import shutil
import sys
import tempfile

sys.path.insert(0, os.environ.get('FB_PATH', '/tmp/wt_C13i'))
from file_builder import FileBuilder, FileComparison  # noqa: E402


def make_root(dir_, calls):
    data = os.path.join(dir_, 'data.txt')
    link = os.path.join(dir_, 'current')

    def readf(builder, filename, tag):
        calls.append(tag)
        with builder.read_text(filename, FileComparison.HASH) as file_:
            return file_.read()

    def gen(builder, filename):
        calls.append('gen')
        with open(filename, 'w') as file_:
            file_.write('v1')

    def root(builder):
        before = builder.subbuild('readf', readf, link, 'before')
        builder.build_file_with_comparison(
            data, FileComparison.HASH, 'gen', gen)
        after = builder.subbuild('readf', readf, link, 'after')
        return [before, after]
    return root


def write(filename, contents):
    with open(filename, 'w') as file_:
        file_.write(contents)


def main():
    top = tempfile.mkdtemp()
    try:
        # ---- incremental history -------------------------------------
        inc = os.path.join(top, 'inc')
        os.mkdir(inc)
        write(os.path.join(inc, 'data.txt'), 'v0')
        write(os.path.join(inc, 'other.txt'), 'v0')
        os.symlink(
            os.path.join(inc, 'data.txt'), os.path.join(inc, 'current'))
        calls = []
        root = make_root(inc, calls)
        cache = os.path.join(inc, 'cache.gz')

        result1 = FileBuilder.build(cache, 'demo', root)
        print('build 1 returned', result1, 'executed', calls)
        if result1 != ['v0', 'v1']:
            print('unexpected result of build 1 - demo is broken')
            return 2

        # The user re-points the link between the builds (an input change)
        os.remove(os.path.join(inc, 'current'))
        os.symlink(
            os.path.join(inc, 'other.txt'), os.path.join(inc, 'current'))

        del calls[:]
        result2 = FileBuilder.build(cache, 'demo', root)
        print('build 2 returned', result2, 'executed', calls)

        # ---- reference: the same build from scratch -------------------
        # State of the file system before build 2 with the outputs of
        # build 1 (data.txt, cache file) removed
        ref = os.path.join(top, 'ref')
        os.mkdir(ref)
        write(os.path.join(ref, 'other.txt'), 'v0')
        os.symlink(
            os.path.join(ref, 'other.txt'), os.path.join(ref, 'current'))
        ref_calls = []
        expected = FileBuilder.build(
            os.path.join(ref, 'cache.gz'), 'demo', make_root(ref, ref_calls))
        print('from-scratch build returned', expected)

        if result2 != expected:
            print(
                'VIOLATION of C13: the subbuild "after" reads the file '
                '"current" with FileComparison.HASH. In build 1 the contents '
                'it read were "v1", in build 2 they are "v0", but the content '
                'change was not detected: the cached result {!r} was reused '
                '(executed in build 2: {!r}); a from-scratch build returns '
                '{!r}. Reason: build 1 recorded the hash of "v0" for that '
                'read, taken from the hash cache entry made before '
                'build_file rewrote the file.'.format(
                    result2[1], calls, expected[1]))
            return 1
        print('OK: build 2 agrees with the from-scratch build')
        return 0
    finally:
        shutil.rmtree(top, ignore_errors=True)


if __name__ == '__main__':
    sys.exit(main())
