"""C14 demo: a directory created by a build_file call whose next mkdir fails
is left behind, owned by nobody, when another thread used it in the meantime.

Two build_file calls run in two threads of one build (FileBuilder is
documented as thread-safe):

  T1: build_file(<root>/A/B/f1)   T2: build_file(<root>/A/C/f2)

Forced schedule (os.mkdir is wrapped from the outside; it behaves identically
apart from waiting, and ONE call raises OSError once):

  1. T1 _make_dirs: os.mkdir(A) succeeds.
  2. T2 runs its whole build_file call: it sees that A exists, creates only
     A/C, registers only A/C as created, writes A/C/f2 and returns.
  3. T1 _make_dirs: os.mkdir(A/B) raises the injected OSError.  _make_dirs
     tries to remove the directories it made ([A]) but A is no longer empty,
     so the rmdir silently fails.  The OSError surfaces from T1's build_file
     call and is caught by the build function.

Now A exists, T1 (which made it) has failed and forgotten it, and T2 never
considered it its own.  A is in neither BuildDirs nor the cache file, so
  * (commit case)   FileBuilder.clean() / later builds never remove A;
  * (rollback case) if the build function raises afterwards, the rollback
    leaves A behind although it did not exist before the build.
In both sequential orders of the two calls (T1's failing call completely
before or completely after T2's call) A is recorded and removed.
"""
import errno
import logging
import os
import shutil
import sys
import tempfile
import threading

sys.path.insert(0, os.environ.get('FB_PATH', '/tmp/wt_C14h'))
from file_builder import FileBuilder  # noqa: E402

WAIT = 20
logging.getLogger("file_builder").setLevel(logging.CRITICAL)


def write(builder, filename, content):
    with open(filename, 'w') as f:
        f.write(content)
    return content


def tree(root):
    out = []
    for p, ds, fs in os.walk(root):
        for n in ds:
            out.append(os.path.relpath(os.path.join(p, n), root) + '/')
        for n in fs:
            out.append(os.path.relpath(os.path.join(p, n), root))
    return sorted(out)


class RootFailure(Exception):
    pass


def run(base, name, schedule, root_raises):
    """schedule: 'interleaved', 't1_first' or 't2_first'."""
    root = os.path.join(base, name)
    os.mkdir(root)
    cache = os.path.join(base, name + '.cache')
    dir_a = os.path.join(root, 'A')
    dir_ab = os.path.join(dir_a, 'B')
    f1 = os.path.join(dir_ab, 'f1')
    f2 = os.path.join(dir_a, 'C', 'f2')

    real_mkdir = os.mkdir
    a_made = threading.Event()
    t2_done = threading.Event()
    state = {'fired': False, 't1': None, 'caught': None, 't2_error': None,
             'timeout': False}

    def patched_mkdir(path, *args, **kwargs):
        if (os.fspath(path) == dir_ab and not state['fired'] and
                threading.get_ident() == state['t1']):
            if schedule == 'interleaved':
                # T1 has already created A.  Let T2 run its call now.
                a_made.set()
                if not t2_done.wait(WAIT):
                    state['timeout'] = True
            state['fired'] = True
            raise OSError(errno.EIO, 'injected I/O error', path)
        return real_mkdir(path, *args, **kwargs)

    def t2_body(builder):
        try:
            if schedule == 'interleaved' and not a_made.wait(WAIT):
                state['timeout'] = True
            builder.build_file(f2, 'write', write, 'two')
        except BaseException as e:  # noqa
            state['t2_error'] = e
        finally:
            t2_done.set()

    def t1_call(builder):
        try:
            builder.build_file(f1, 'write', write, 'one')
        except OSError as e:
            state['caught'] = e

    def build(builder):
        state['t1'] = threading.get_ident()
        if schedule == 'interleaved':
            t2 = threading.Thread(target=t2_body, args=(builder,))
            t2.start()
            t1_call(builder)
            t2.join()
        elif schedule == 't1_first':
            t1_call(builder)
            t2_body(builder)
        else:
            t2_body(builder)
            t1_call(builder)
        if root_raises:
            raise RootFailure()

    os.mkdir = patched_mkdir
    try:
        try:
            FileBuilder.build(cache, 'demo', build)
            raised = None
        except RootFailure as e:
            raised = e
    finally:
        os.mkdir = real_mkdir

    result = {
        'fired': state['fired'], 'caught': state['caught'],
        't2_error': state['t2_error'], 'timeout': state['timeout'],
        'raised': raised, 'after_build': tree(root)}
    if not root_raises:
        FileBuilder.clean(cache, 'demo')
        result['after_clean'] = tree(root)
    return result


def main():
    base = tempfile.mkdtemp(prefix='c14h_')
    try:
        results = {}
        for root_raises in (False, True):
            for schedule in ('t1_first', 't2_first', 'interleaved'):
                name = '%s_%s' % (schedule, 'rb' if root_raises else 'ok')
                results[name] = run(base, name, schedule, root_raises)
    finally:
        shutil.rmtree(base, ignore_errors=True)

    problems = []
    for name, r in sorted(results.items()):
        if r['timeout'] or not r['fired']:
            problems.append('%s: harness problem %r' % (name, r))
            continue
        if not isinstance(r['caught'], OSError):
            problems.append(
                '%s: the injected OSError did not surface from T1\'s '
                'build_file call' % name)
        if r['t2_error'] is not None:
            problems.append(
                '%s: T2\'s build_file failed: %r' % (name, r['t2_error']))
        if name.endswith('_ok'):
            if r['after_build'] != ['A/', 'A/C/', 'A/C/f2']:
                problems.append(
                    '%s: unexpected tree after the build: %r'
                    % (name, r['after_build']))
            if r['after_clean'] != []:
                problems.append(
                    '%s: LEAKED DIRECTORY: after the build committed, '
                    'FileBuilder.clean() leaves %r behind (the directory was '
                    'created by the build but is not recorded in the cache)'
                    % (name, r['after_clean']))
        else:
            if r['raised'] is None:
                problems.append('%s: build did not raise' % name)
            if r['after_build'] != []:
                problems.append(
                    '%s: ROLLBACK INCOMPLETE: the build raised, but the tree '
                    'that was empty before the build now contains %r'
                    % (name, r['after_build']))

    if problems:
        print('C14 VIOLATED')
        for p in problems:
            print(' -', p)
        print('(the sequential schedules t1_first / t2_first are the '
              'controls; only the interleaved schedule misbehaves)')
        return 1
    print('ok: no directory leaked in any schedule')
    return 0


if __name__ == '__main__':
    sys.exit(main())
