"""C15 demo: clean()/build() refuse a damaged cache file only AFTER changing the tree.

The cache file is valid gzip and valid JSON of exactly the shape file_builder
writes, except that the list "createdDirs" holds one extra string that cannot
be a directory name on Linux (it contains a NUL character, JSON "\\u0000").

Cache.read_immutable only checks that createdDirs is a list of str, so the
file is accepted.  FileBuilder.clean then removes every output file and the
cache file, and only afterwards os.rmdir(<that string>) raises
ValueError('embedded null byte'), which _remove_empty_dirs does not catch
(it only catches OSError).  So the call is rejected with an exception, but the
tree is not bit-identical any more.

build_versioned with the same cache file calls the user function, rewrites
the cache file and then raises the same ValueError out of _commit (which is
outside the try/except that rolls back).

Exit status: 1 if the property is violated, 0 otherwise.
"""
import gzip
import json
import logging
import os
import shutil
import sys
import tempfile

sys.path.insert(0, os.environ.get('FB_PATH', '/tmp/wt_C15i'))
from file_builder import FileBuilder  # noqa: E402

logging.disable(logging.CRITICAL)

BUILD_NAME = 'demo_build'
calls = []


def write_out(builder, filename, text):
    calls.append('write_out ' + os.path.basename(filename))
    with open(filename, 'w') as file_:
        file_.write(text)
    return len(text)


def upper(builder, source):
    calls.append('upper')
    with builder.read_text(source) as file_:
        return file_.read().upper()


def root_func(builder, tree):
    calls.append('root_func')
    text = builder.subbuild('upper', upper, os.path.join(tree, 'in', 'a.txt'))
    builder.build_file(
        os.path.join(tree, 'out', 'd1', 'x.txt'), 'write_out', write_out, text)
    builder.build_file(
        os.path.join(tree, 'out', 'd2', 'deep', 'y.txt'), 'write_out',
        write_out, text + '!')
    return 'ok'


def snapshot(tree):
    """Map every path below tree to its kind and (for files) exact bytes."""
    result = {}
    for dir_, subdirs, subfiles in os.walk(tree):
        result[os.path.relpath(dir_, tree)] = 'directory'
        for subfile in subfiles:
            path = os.path.join(dir_, subfile)
            with open(path, 'rb') as file_:
                result[os.path.relpath(path, tree)] = (
                    'file', file_.read(), os.stat(path).st_mtime_ns)
    return result


def describe_changes(before, after):
    lines = []
    for path in sorted(set(before) | set(after)):
        if path not in after:
            lines.append('    removed : ' + path)
        elif path not in before:
            lines.append('    added   : ' + path)
        elif before[path] != after[path]:
            lines.append('    modified: ' + path)
    return lines


def make_tree(sandbox, name):
    """Build once (legally), then damage one value in the cache file."""
    tree = os.path.join(sandbox, name)
    os.makedirs(os.path.join(tree, 'in'))
    with open(os.path.join(tree, 'in', 'a.txt'), 'w') as file_:
        file_.write('hello')
    cache_filename = os.path.join(tree, 'cachedir', 'cache.gz')
    FileBuilder.build(cache_filename, BUILD_NAME, root_func, tree)

    with gzip.open(cache_filename, 'rt') as file_:
        cache_json = json.load(file_)
    assert isinstance(cache_json['createdDirs'], list)
    # The only damage: one more directory name, which contains U+0000
    cache_json['createdDirs'].append(os.path.join(tree, 'out', 'gone\x00'))
    with gzip.open(cache_filename, 'wt') as file_:
        file_.write(
            json.dumps(cache_json, separators=(',', ':'), sort_keys=True))
    return tree, cache_filename


def check(label, sandbox, temp_dir, tree, call):
    """Run call(); if it raises, nothing may have happened."""
    before = snapshot(tree)
    del calls[:]
    exception = None
    try:
        call()
    except BaseException as exc:
        exception = exc
    after = snapshot(tree)
    leftovers = os.listdir(temp_dir)

    if exception is None:
        print('{:s}: did not raise (cache treated as usable) - OK'.format(
            label))
        return True

    print('{:s}: raised {:s}: {!s}'.format(
        label, type(exception).__name__, exception))
    problems = []
    changes = describe_changes(before, after)
    if changes:
        problems.append(
            '  the call was rejected, but the tree is not bit-identical:')
        problems.extend(changes)
    if calls:
        problems.append(
            '  the call was rejected, but user functions were called: '
            '{!r}'.format(calls))
    if leftovers:
        problems.append(
            '  temporary directories left behind: {!r}'.format(leftovers))
    if problems:
        print('\n'.join(problems))
        return False
    print('  nothing was changed - OK')
    return True


def main():
    sandbox = tempfile.mkdtemp(prefix='c15i_demo_')
    old_tempdir = tempfile.tempdir
    try:
        # Keep file_builder's own temporary directories inside the sandbox
        temp_dir = os.path.join(sandbox, 'tmp')
        os.mkdir(temp_dir)
        tempfile.tempdir = temp_dir

        ok = True

        tree, cache_filename = make_tree(sandbox, 'tree_clean')
        ok &= check(
            'clean(cache, build_name)', sandbox, temp_dir, tree,
            lambda: FileBuilder.clean(cache_filename, BUILD_NAME))

        tree2, cache_filename2 = make_tree(sandbox, 'tree_clean_none')
        ok &= check(
            'clean(cache, None)', sandbox, temp_dir, tree2,
            lambda: FileBuilder.clean(cache_filename2, None))

        tree3, cache_filename3 = make_tree(sandbox, 'tree_build')
        ok &= check(
            'build(cache, build_name, func)', sandbox, temp_dir, tree3,
            lambda: FileBuilder.build(
                cache_filename3, BUILD_NAME, root_func, tree3))
    finally:
        tempfile.tempdir = old_tempdir
        shutil.rmtree(sandbox, ignore_errors=True)

    if ok:
        print('PASS: C15 holds for this cache file')
        return 0
    print(
        'FAIL: C15 violated - a call that ends in an exception because of a '
        'damaged cache file changed the tree first')
    return 1


if __name__ == '__main__':
    sys.exit(main())
