"""C11 demo: a str value that contains a UTF-16 surrogate pair written as two
code points (e.g. the literal '\\ud83d\\ude00') does not cross the API by value.

JsonUtil.sanitize keeps the two code points, so the live operation record (cache
key, arguments handed to the function, recorded return value, value returned to
the caller) holds the 2-code-point string.  Cache.write serialises the record
with json.dumps(ensure_ascii=True) -> "\\ud83d\\ude00", and json.load joins that
escape pair into the single code point U+1F600.  So what is written to the cache
file is a different value than the recorded one:

 * a later build that is served from the cache returns a different value than
   the build that executed the function (and than a from-scratch build), and
 * the cache key stored in the file never equals the key of the (unchanged)
   call, so the call is re-executed in every build.

Exit status 1 = property violated, 0 = fine.
"""
import os
import shutil
import sys
import tempfile

sys.path.insert(0, os.environ.get('FB_PATH', '/tmp/wt_C11j'))

from file_builder import FileBuilder  # noqa: E402

# A perfectly legal Python str / JSON value: high surrogate + low surrogate
PAIR = chr(0xD83D) + chr(0xDE00)


def main():
    problems = []
    tmp = tempfile.mkdtemp()
    try:
        # ---- Scenario A: return value, fresh build vs. build served from cache
        cache_a = os.path.join(tmp, 'a.cache')
        calls_a = []

        def make_label(builder):
            calls_a.append(1)
            return {'label': ['x' + PAIR]}

        def root_a(builder):
            return builder.subbuild('make_label', make_label)

        fresh = FileBuilder.build(cache_a, 'demo', root_a)
        cached = FileBuilder.build(cache_a, 'demo', root_a)
        print('A: function executed {:d} time(s) in 2 builds'.format(
            len(calls_a)))
        print('A: build 1 (executed) returned', ascii(fresh))
        print('A: build 2 (cached)   returned', ascii(cached))
        if fresh != cached:
            problems.append(
                'A: the build served from the cache returned {} but the build '
                'that executed the function (= a from-scratch build) returned '
                '{}'.format(ascii(cached), ascii(fresh)))

        # ---- Scenario B: argument / cache key, nothing changes between builds
        cache_b = os.path.join(tmp, 'b.cache')
        out = os.path.join(tmp, 'out', 'b.txt')
        calls_sub = []
        calls_file = []
        received = []

        def sub(builder, text):
            calls_sub.append(1)
            received.append(text)
            return len(text)

        def write_file(builder, filename, text):
            calls_file.append(1)
            with open(filename, 'w') as file_:
                file_.write('{:d}'.format(len(text)))

        def control(builder, text):
            calls_control.append(1)
            return len(text)

        calls_control = []

        def root_b(builder):
            builder.build_file(out, 'write_file', write_file, [PAIR])
            builder.subbuild('control', control, 'plain')
            return builder.subbuild('sub', sub, PAIR)

        results = [FileBuilder.build(cache_b, 'demo', root_b)
                   for _ in range(3)]
        print('B: 3 identical builds: subbuild executed {:d}x, build_file '
              'executed {:d}x, control subbuild (plain ASCII argument) '
              'executed {:d}x'.format(
                  len(calls_sub), len(calls_file), len(calls_control)))
        print('B: results', results, 'arguments received',
              [ascii(text) for text in received])
        if len(calls_control) != 1:
            print('B: the control subbuild was not cached; demo is broken')
            return 2
        if len(calls_sub) != 1:
            problems.append(
                'B: subbuild("sub", PAIR) was re-executed in every build '
                '({:d}x in 3 identical builds): the cache key written to the '
                'cache file differs from the key of the live record'.format(
                    len(calls_sub)))
        if len(calls_file) != 1:
            problems.append(
                'B: build_file(out, "write_file", [PAIR]) was re-executed in '
                'every build ({:d}x in 3 identical builds): the arguments '
                'written to the cache file differ from the recorded '
                'arguments'.format(len(calls_file)))
    finally:
        shutil.rmtree(tmp, ignore_errors=True)

    if problems:
        print('VIOLATION of C11 (values do not cross the API / the cache '
              'file by value):')
        for problem in problems:
            print(' -', problem)
        return 1
    print('OK: no violation')
    return 0


if __name__ == '__main__':
    sys.exit(main())
