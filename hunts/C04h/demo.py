"""C04 demo: a path spelled with two leading slashes bypasses the virtual view.

On Linux "//a/b" and "/a/b" name the same file, but os.path.abspath (and thus
FileBuilder._sanitize_filename) keeps exactly two leading slashes.  Every
piece of virtual state in the library (outputs of the previous build, the
cache file, directories of the previous build, the file that is being built,
...) is keyed by the sanitized string, so a query spelled "//..." is answered
from the real file system only.

The demo runs the same build function twice:

  run A ("incremental"): in a directory with a history (a previous build that
        produced outputs, directories and a cache file), and
  run B ("from scratch"): in a pristine directory that only holds the foreign
        files.

At several points of the build (before / inside / after nested build_file
calls that succeed or fail after writing) it asks every query kind about every
path of a small universe, in both spellings.  C04 demands that run A answers
exactly like run B, and that the answers about one and the same file agree.

Exit status 1 and a report if the property is violated, 0 otherwise.
"""

import os
import shutil
import sys
import tempfile

sys.path.insert(0, os.environ.get('FB_PATH', '/tmp/wt_C04h'))

from file_builder import FileBuilder  # noqa: E402


REL_PATHS = [
    '.',
    'cache.gz',
    'src.txt',
    'd', 'd/out.txt', 'd/out.txt/below',
    'e', 'e/sub', 'e/sub/o2.txt',
    'keep', 'keep/o3.txt', 'keep/foreign.txt',
    'new', 'new/n.txt',
    'bad', 'bad/b.txt',
    'missing',
]


def write_file(builder, filename, text):
    with open(filename, 'w') as file_:
        file_.write(text)
    return len(text)


def one_slash(path):
    """Collapse the leading slashes, so that both spellings compare equal."""
    return '/' + path.lstrip('/')


def probe(builder, root, spelling_prefix, point, results):
    """Ask every query kind about every path, spelled with the given prefix."""
    def name(rel):
        return os.path.normpath(os.path.join(root, rel))

    def record(kind, rel, func):
        try:
            value = func()
        except OSError as exception:
            value = 'raises ' + exception.__class__.__name__
        results[(point, spelling_prefix + '<root>', rel, kind)] = value

    for rel in REL_PATHS:
        path = spelling_prefix + name(rel)
        record('exists', rel, lambda: builder.exists(path))
        record('is_file', rel, lambda: builder.is_file(path))
        record('is_dir', rel, lambda: builder.is_dir(path))
        record('list_dir', rel, lambda: sorted(builder.list_dir(path)))
        record('get_size', rel, lambda: builder.get_size(path))
        record(
            'declare_read', rel,
            lambda: builder.declare_read(path) or 'ok')
        record(
            'walk', rel,
            lambda: sorted(
                (os.path.relpath(one_slash(dir_), root), sorted(subdirs),
                    sorted(subfiles))
                for dir_, subdirs, subfiles in builder.walk(path)))


def probe_both(builder, root, point, results):
    probe(builder, root, '', point, results)
    # One extra slash in front of the absolute path: the same file on Linux
    probe(builder, root, '/', point, results)


def first_build(builder, root):
    builder.build_file(
        os.path.join(root, 'd', 'out.txt'), 'write_file', write_file, 'one')
    builder.build_file(
        os.path.join(root, 'e', 'sub', 'o2.txt'), 'write_file', write_file,
        'two')
    builder.build_file(
        os.path.join(root, 'keep', 'o3.txt'), 'write_file', write_file,
        'three')


def second_build(builder, root):
    results = {}
    probe_both(builder, root, '1 before', results)

    def good_func(subbuilder, filename):
        with open(filename, 'w') as file_:
            file_.write('new')
        probe_both(subbuilder, root, '2 inside new/n.txt', results)
        return None

    builder.build_file(os.path.join(root, 'new', 'n.txt'), 'good', good_func)
    probe_both(builder, root, '3 after new/n.txt', results)

    def bad_func(subbuilder, filename):
        with open(filename, 'w') as file_:
            file_.write('bad')
        probe_both(subbuilder, root, '4 inside bad/b.txt', results)
        raise ValueError('fails after writing')

    try:
        builder.build_file(os.path.join(root, 'bad', 'b.txt'), 'bad', bad_func)
    except ValueError:
        pass
    probe_both(builder, root, '5 after failed bad/b.txt', results)
    return results


def foreign_files(root):
    """The files that do not belong to any build."""
    os.makedirs(os.path.join(root, 'keep'), exist_ok=True)
    with open(os.path.join(root, 'src.txt'), 'w') as file_:
        file_.write('source')
    with open(os.path.join(root, 'keep', 'foreign.txt'), 'w') as file_:
        file_.write('foreign')


def run(temp_dir, label, with_history):
    root = os.path.join(temp_dir, label)
    os.mkdir(root)
    cache_filename = os.path.join(root, 'cache.gz')
    if with_history:
        with open(os.path.join(root, 'src.txt'), 'w') as file_:
            file_.write('source')
        FileBuilder.build(cache_filename, 'demo', first_build, root)
        # "keep" was created by the first build and now holds a foreign file
        with open(os.path.join(root, 'keep', 'foreign.txt'), 'w') as file_:
            file_.write('foreign')
    else:
        foreign_files(root)
    return FileBuilder.build(cache_filename, 'demo', second_build, root)


def main():
    temp_dir = os.path.realpath(tempfile.mkdtemp())
    problems = []
    try:
        incremental = run(temp_dir, 'a', True)
        from_scratch = run(temp_dir, 'b', False)
    finally:
        shutil.rmtree(temp_dir, ignore_errors=True)

    # 1. The build with a history must answer like the build from scratch
    for key in sorted(from_scratch):
        if incremental[key] != from_scratch[key]:
            problems.append(
                'differs from the from-scratch build: [{:s}] {:s}({:s}/{:s}) '
                '= {!r}, from scratch = {!r}'.format(
                    key[0], key[3], key[1], key[2], incremental[key],
                    from_scratch[key]))

    # 2. Both spellings name the same file, so the answers must agree (this
    # also catches the output that is visible while its function runs)
    for label, results in (
            ('incremental', incremental), ('from scratch', from_scratch)):
        for key in sorted(results):
            point, spelling, rel, kind = key
            if spelling != '<root>':
                continue
            other = results[(point, '/<root>', rel, kind)]
            if other != results[key]:
                problems.append(
                    'inconsistent ({:s} build): [{:s}] {:s}(<root>/{:s}) = '
                    '{!r} but {:s}(/<root>/{:s}) = {!r}'.format(
                        label, point, kind, rel, results[key], kind, rel,
                        other))

    if problems:
        print(
            'C04 VIOLATED: {:d} answers are not those of the from-scratch '
            'view'.format(len(problems)))
        shown = []
        for marker in (
                'build: [1 before]', 'build: [2 inside', 'build: [5 after',
                'inconsistent (incremental build): [2 inside',
                'inconsistent (from scratch build): [4 inside'):
            shown.extend([
                problem for problem in problems if marker in problem][:8])
        for problem in shown:
            print('  ' + problem)
        print('  ... ({:d} more)'.format(len(problems) - len(shown)))
        return 1
    print('C04 holds for both spellings of every path')
    return 0


if __name__ == '__main__':
    sys.exit(main())
