#!/usr/bin/env python
"""C01 (cache transparency) violation: a stale output of the previous build is
visible - and its stale contents are served - through a symbolic link.

The library hides the not-yet-rebuilt output files of the previous build from
is_file/exists/read_* by comparing the *spelling* of the queried path with the
output paths in the old cache (SimpleOperationExecutor._is_file_no_read).  A
symbolic link that an external change places next to the inputs and that
points at such an output is a different spelling, so the library falls through
to os.path.isfile()/open() on the real file system, where the leftover output
of the previous build still exists.

History (identical in both sandboxes):
    build #1                       src.txt = 'v1'   -> out/a.txt = 'v1'
    external change                link -> out/a.txt (symlink), src.txt = 'v2!'
    build #2, build #3             (no further changes before #3)

Build program (deterministic, touches files only through the builder):
    root:   p = subbuild('probe', probe, <link>)      # looks at the link first
            g = build_file(<out/a.txt>, 'gen', gen, <src.txt>)
            return [p, g]

Sandbox INC runs the builds incrementally with the cache.  Sandbox REF is the
reference execution of the property: before every build it deletes the previous
build's outputs, the cache file and the emptied created directory and then
builds without any cache.  Return values and the resulting trees must agree.

Exit status 1 (and a description) if they do not, 0 otherwise.
"""
import logging
import os
import shutil
import sys
import tempfile

sys.path.insert(0, os.environ.get('FB_PATH', '/tmp/wt_C01i'))
from file_builder import FileBuilder  # noqa: E402

logging.disable(logging.CRITICAL)


# ----------------------------------------------------------------- program
def gen(builder, filename, src):
    with builder.read_text(src) as file_:
        text = file_.read()
    with open(filename, 'w') as file_:
        file_.write(text)
    return text


def probe(builder, path):
    result = [builder.is_file(path), builder.exists(path)]
    try:
        with builder.read_text(path) as file_:
            result.append(file_.read())
    except FileNotFoundError:
        result.append('<FileNotFoundError>')
    return result


def root(builder, box):
    p = builder.subbuild('probe', probe, box.path('link'))
    g = builder.build_file(box.path('out', 'a.txt'), 'gen', gen,
                           box.path('src.txt'))
    return [p, g]


# ----------------------------------------------------------------- sandboxes
class Box:
    def __init__(self, base, name, incremental):
        self.dir = os.path.join(base, name)
        os.mkdir(self.dir)
        self.incremental = incremental
        self.cache = self.path('cache')

    def path(self, *parts):
        return os.path.join(self.dir, *parts)

    def delete_previous_build(self):
        """What the reference does first: delete the previous build's
        outputs, the cache file and the emptied created directories."""
        for filename in (self.path('out', 'a.txt'), self.cache):
            if os.path.isfile(filename) and not os.path.islink(filename):
                os.remove(filename)
        try:
            os.rmdir(self.path('out'))      # created by the build; only if empty
        except OSError:
            pass

    def build(self):
        if not self.incremental:
            self.delete_previous_build()
        try:
            return ('returned', FileBuilder.build(self.cache, 'demo', root, self))
        except Exception as exception:
            return ('raised', type(exception).__name__)

    def snapshot(self):
        tree = {}
        for dir_path, dir_names, file_names in os.walk(self.dir):
            for name in dir_names + file_names:
                full = os.path.join(dir_path, name)
                rel = os.path.relpath(full, self.dir)
                if full == self.cache:
                    continue
                if os.path.islink(full):
                    tree[rel] = 'symlink -> ' + os.readlink(full)
                elif os.path.isdir(full):
                    tree[rel] = '<dir>'
                else:
                    with open(full) as file_:
                        tree[rel] = 'file ' + repr(file_.read())
        return tree


def write(box, rel, text):
    with open(box.path(rel), 'w') as file_:
        file_.write(text)


def main():
    base = tempfile.mkdtemp(prefix='fb_c01i_')
    problems = []
    try:
        inc = Box(base, 'INC', True)
        ref = Box(base, 'REF', False)
        boxes = (inc, ref)

        def build_and_compare(label):
            got, want = inc.build(), ref.build()
            print('{:s}: incremental {!r}'.format(label, got))
            print('{:s}: reference   {!r}'.format(label, want))
            if got != want:
                problems.append(
                    '{:s}: the incremental build gave {!r}, the from-scratch '
                    'reference gave {!r}'.format(label, got, want))
            got_tree, want_tree = inc.snapshot(), ref.snapshot()
            if got_tree != want_tree:
                problems.append(
                    '{:s}: the trees differ: incremental {!r}, reference '
                    '{!r}'.format(label, got_tree, want_tree))

        for box in boxes:
            write(box, 'src.txt', 'v1')
        build_and_compare('build #1')

        # External change between the builds: a symbolic link to the output
        # file appears, and the source of the output file changes.
        for box in boxes:
            os.symlink(os.path.join('out', 'a.txt'), box.path('link'))
            write(box, 'src.txt', 'v2!')
        build_and_compare('build #2')

        # No external change at all
        build_and_compare('build #3')
    finally:
        shutil.rmtree(base, ignore_errors=True)

    if problems:
        print()
        print('C01 VIOLATED: the leftover output of the previous build is '
              'visible through the symbolic link before it is rebuilt;')
        print('is_file/exists answer True and read_text serves the stale '
              "contents ('v1' although src.txt says 'v2!'), whereas a "
              'from-scratch build finds a dangling link (False / '
              'FileNotFoundError).')
        for problem in problems:
            print(' - ' + problem)
        return 1
    print('OK: every incremental build equals the from-scratch reference')
    return 0


if __name__ == '__main__':
    sys.exit(main())
