"""C07 demo: a string argument that spells a non-BMP character as a UTF-16
surrogate pair is not "sanitized" the way a JSON round trip does it.

json.loads(json.dumps('\\ud83d\\ude00')) == '\\U0001f600' (the json module joins
the two escaped surrogates into one code point), but JsonUtil.sanitize returns
the two-code-point string unchanged.  The in-memory cache key therefore
differs from the key of the very same entry once it has been written to and
read back from the cache file.  Consequences checked here:

 A. the function does not receive the round-tripped copy of its argument;
 B. the *identical* subbuild / build_file call is never a cache hit in the
    following build (the function is called again in every build);
 C. two calls in one build whose arguments are equal after a JSON round trip
    are treated as two different cache entries (no "called twice" error, both
    functions run).

Exit status 1 = property violated, 0 = property holds.
"""
import json
import os
import shutil
import sys
import tempfile

sys.path.insert(0, os.environ.get('FB_PATH', '/tmp/wt_C07j'))
from file_builder import FileBuilder  # noqa: E402

# U+1F600 spelled as a surrogate pair (what e.g. 'surrogatepass' decoding of
# UTF-16 / CESU-8 data yields), and the same character as one code point
PAIR = '\ud83d' + '\ude00'
JOINED = json.loads(json.dumps(PAIR))


def main():
    problems = []
    if JOINED != '\U0001f600' or PAIR == JOINED:
        print('unexpected json module behaviour; nothing to check')
        return 0

    root = tempfile.mkdtemp()
    try:
        cache = os.path.join(root, 'cache.gz')
        out = os.path.join(root, 'out', 'file.txt')
        sub_calls = []
        file_calls = []

        def sub(builder, arg, **kwargs):
            sub_calls.append((arg, kwargs))
            return 'sub result'

        def write_file(builder, filename, arg):
            file_calls.append(arg)
            with open(filename, 'w') as file_:
                file_.write('contents')
            return 'file result'

        def build_func(builder):
            return (
                builder.subbuild('sub', sub, [PAIR], key={PAIR: 1}),
                builder.build_file(out, 'write_file', write_file, PAIR))

        # Build 1: from scratch
        FileBuilder.build(cache, 'demo', build_func)
        if len(sub_calls) != 1 or len(file_calls) != 1:
            print('unexpected: first build did not call both functions')
            return 0

        # A. the functions must receive the round-tripped copies
        expected_sub = json.loads(json.dumps([[PAIR], {'key': {PAIR: 1}}]))
        got_sub = [sub_calls[0][0], sub_calls[0][1]]
        if got_sub != expected_sub:
            problems.append(
                'A. subbuild function received {} but the JSON round trip of '
                'its arguments is {}'.format(
                    ascii(got_sub), ascii(expected_sub)))
        if file_calls[0] != JOINED:
            problems.append(
                'A. build_file function received {} but the JSON round trip '
                'of its argument is {}'.format(
                    ascii(file_calls[0]), ascii(JOINED)))

        # B. Build 2 and 3: exactly the same calls, nothing changed on disk.
        # Both calls must be cache hits.
        for build_number in (2, 3):
            before = (len(sub_calls), len(file_calls))
            FileBuilder.build(cache, 'demo', build_func)
            if len(sub_calls) != before[0]:
                problems.append(
                    'B. build {}: the identical subbuild call (same name, '
                    'same arguments) was not a cache hit; the function was '
                    'called again'.format(build_number))
            if len(file_calls) != before[1]:
                problems.append(
                    'B. build {}: the identical build_file call (same name, '
                    'same path, same arguments) was not a cache hit; the file '
                    'was rebuilt'.format(build_number))

        # Control: the same history with the one-code-point spelling is cached
        before = (len(sub_calls), len(file_calls))

        def control_func(builder):
            builder.subbuild('control', sub, [JOINED], key={JOINED: 1})

        FileBuilder.build(cache, 'demo', control_func)
        mid = len(sub_calls)
        FileBuilder.build(cache, 'demo', control_func)
        if len(sub_calls) != mid or mid != before[0] + 1:
            print('unexpected: control calls are not cached either')
            return 0

        # C. Two calls in one build whose arguments are equal after a JSON
        # round trip refer to the same cache entry, so the second call must be
        # rejected as a duplicate (as it is for (1,) vs [1.0]).
        def duplicate_func(builder):
            builder.subbuild('dup', sub, PAIR)
            builder.subbuild('dup', sub, JOINED)

        before = len(sub_calls)
        try:
            FileBuilder.build(cache, 'demo', duplicate_func)
        except RuntimeError as exception:
            if 'twice' not in str(exception):
                raise
        else:
            problems.append(
                'C. subbuild("dup", f, {}) and subbuild("dup", f, {}) in one '
                'build were accepted as two different cache entries ({} '
                'function calls), although their arguments are equal after a '
                'JSON round trip'.format(
                    ascii(PAIR), ascii(JOINED), len(sub_calls) - before))
    finally:
        shutil.rmtree(root, ignore_errors=True)

    if problems:
        print('C07 VIOLATED:')
        for problem in problems:
            print(' - ' + problem)
        return 1
    print('C07 holds for surrogate-pair strings')
    return 0


if __name__ == '__main__':
    sys.exit(main())
