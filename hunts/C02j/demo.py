"""C02 (rollback) violation: a dangling symbolic link at an output path.

Before the build, ``<root>/out/report.txt`` is a symbolic link whose target
``<root>/store/report.txt`` does not exist (a perfectly ordinary state on
Linux, e.g. after the target of a "latest" link was cleaned up).

The build function calls ``build_file`` for ``out/report.txt`` and then
raises. ``build_file`` looks at the output path with ``os.path.isfile``,
which follows the link and says "nothing there", so the link is neither
deleted nor moved to the backup directory. The function passed to
``build_file`` then opens the filename it was given for writing, which writes
*through* the link and creates ``store/report.txt``. When the build function
raises, the rollback calls ``_try_to_remove_file('out/report.txt')``, which
removes the link (``os.path.isfile`` is now true) and leaves the new regular
file ``store/report.txt`` behind.

So after ``build()`` re-raised the exception
  * a regular file created by the failed build remains (store/report.txt), and
  * the directory entry out/report.txt that existed before the call is gone,
and a subsequent build sees a different file system than if the failed build
had never run.

The same thing happens when the exception is raised inside the function
passed to ``build_file`` after it wrote the file (variant 2): there
``_handle_error_building_file`` removes the link and leaves the target.

Exit status: 1 if the property is violated, 0 otherwise.
"""

import logging
import os
import shutil
import stat
import sys
import tempfile

sys.path.insert(0, os.environ.get('FB_PATH', '/tmp/wt_C02j'))

from file_builder import FileBuilder  # noqa: E402

logging.disable(logging.CRITICAL)


class Boom(Exception):
    pass


def snapshot(root):
    """Return a description of everything below ``root``."""
    result = {}
    for dir_, subdirs, subfiles in os.walk(root):
        for name in subdirs + subfiles:
            path = os.path.join(dir_, name)
            stats = os.lstat(path)
            relative = os.path.relpath(path, root)
            if stat.S_ISLNK(stats.st_mode):
                result[relative] = ('symlink', os.readlink(path))
            elif stat.S_ISDIR(stats.st_mode):
                result[relative] = ('dir',)
            else:
                with open(path, 'rb') as file_:
                    result[relative] = (
                        'file', file_.read(), stats.st_mtime_ns)
    return result


def write_report(builder, filename, text):
    with open(filename, 'w') as file_:
        file_.write(text)


def write_report_then_raise(builder, filename, text):
    with open(filename, 'w') as file_:
        file_.write(text)
    raise Boom('raised inside the build_file function')


def probe(builder, filename):
    """A later build that only looks at the file system."""
    return builder.is_file(filename)


def run_variant(name, build_func):
    """Run one scenario. Return a list of complaints."""
    root = tempfile.mkdtemp()
    try:
        out_dir = os.path.join(root, 'out')
        store_dir = os.path.join(root, 'store')
        os.mkdir(out_dir)
        os.mkdir(store_dir)
        link = os.path.join(out_dir, 'report.txt')
        target = os.path.join(store_dir, 'report.txt')
        os.symlink(target, link)  # dangling: "target" does not exist
        cache = os.path.join(root, 'cache.gz')

        before = snapshot(root)
        exception = Boom('raised by the build function')
        raised = None
        try:
            FileBuilder.build(cache, 'demo', build_func, link, exception)
        except BaseException as caught:
            raised = caught
        after = snapshot(root)

        complaints = []
        if raised is None:
            complaints.append('build() did not raise')
        elif not isinstance(raised, Boom):
            complaints.append(
                'build() raised something else: {!r}'.format(raised))
        for path in sorted(set(before) | set(after)):
            if before.get(path) != after.get(path):
                complaints.append(
                    '{}: before the failed build {!r}, afterwards {!r}'.format(
                        path, before.get(path), after.get(path)))

        # A subsequent build must behave as if the failed build never ran
        is_file_after = FileBuilder.build(cache, 'demo', probe, target)
        if is_file_after:
            complaints.append(
                'a subsequent build sees the regular file store/report.txt, '
                'which did not exist before the failed build')
        return ['[{}] {}'.format(name, complaint) for complaint in complaints]
    finally:
        shutil.rmtree(root, ignore_errors=True)


def build_then_raise(builder, link, exception):
    builder.build_file(link, 'write_report', write_report, 'new contents')
    raise exception


def raise_inside_build_file(builder, link, exception):
    builder.build_file(
        link, 'write_report', write_report_then_raise, 'new contents')


def main():
    complaints = []
    complaints += run_variant(
        'raise after build_file returned', build_then_raise)
    complaints += run_variant(
        'raise inside the build_file function', raise_inside_build_file)
    if complaints:
        print('C02 VIOLATED: the failed build did not leave the pre-build '
              'state behind')
        for complaint in complaints:
            print('  ' + complaint)
        return 1
    print('OK: the failed builds left the pre-build state behind')
    return 0


if __name__ == '__main__':
    sys.exit(main())
