"""Secondary C05 observation (not the main finding): get_size() of a directory that exists only in the replay overlay
(parent directory of a nested build_file call that raised and was caught) raises FileNotFoundError during cache validation,
so the enclosing, successful subbuild P is re-executed on EVERY unchanged rebuild. Exits 1 if that happens."""
import os, sys, tempfile, shutil, logging
sys.path.insert(0, os.environ.get('FB_PATH', '/tmp/wt_C05h'))
from file_builder import FileBuilder
logging.disable(logging.CRITICAL)
root = tempfile.mkdtemp()
calls = []
def bad(b, fn):
    calls.append('bad')
    b.get_size(os.path.dirname(fn))
    raise ValueError('x')
def P(b):
    calls.append('P')
    try: b.build_file(os.path.join(root, 'd', 'F'), 'bad', bad)
    except ValueError: return 'caught'
def main(b): return b.subbuild('P', P)
bad_builds = []
for i in range(4):
    calls.clear()
    print(i, FileBuilder.build(os.path.join(root, 'cache'), 'x', main), calls)
    if i > 0 and 'P' in calls:
        bad_builds.append(i)
shutil.rmtree(root)
if bad_builds:
    print('P (which did not raise) was re-executed in unchanged rebuilds', bad_builds)
    sys.exit(1)
