"""C05 demo: an unchanged rebuild re-executes a subbuild that observed the
directory FileBuilder itself created for the cache file.

Scenario (sequential, no faults, public API only):

    <root>/src/a.txt                 an input file
    <root>/.cache/cache.gz           the cache file; <root>/.cache does NOT
                                     exist before the first build, so
                                     FileBuilder.build creates it

    build function:  subbuild 'scan'  -> builder.walk(<root>)   (like the lint
                                         example in the README)
                     subbuild 'probe' -> builder.is_dir(<root>/.cache)

Build #0 answers "<root>/.cache exists" (it was just created for the cache
file).  Nothing is changed.  Build #1 answers "<root>/.cache does not exist",
so both cached records are thrown away and the functions run again, returning
different values.  Only build #2 is finally a no-op.

Exit status: 1 if the property is violated, 0 otherwise.
"""
import logging
import os
import shutil
import sys
import tempfile

sys.path.insert(0, os.environ.get('FB_PATH', '/tmp/wt_C05h'))

from file_builder import FileBuilder  # noqa: E402

logging.disable(logging.CRITICAL)


def run_history(root, precreate_cache_dir):
    """Run build #0 and two unchanged rebuilds; return a list of problems."""
    os.makedirs(os.path.join(root, 'src'))
    with open(os.path.join(root, 'src', 'a.txt'), 'w') as file_:
        file_.write('input\n')
    cache_dir = os.path.join(root, '.cache')
    cache_filename = os.path.join(cache_dir, 'cache.gz')
    out_filename = os.path.join(root, 'out', 'a.out')
    if precreate_cache_dir:
        os.mkdir(cache_dir)

    executed = []

    def scan(builder, dir_):
        executed.append('scan')
        result = []
        for sub_dir, subdirs, subfiles in builder.walk(dir_):
            result.append([
                os.path.relpath(sub_dir, dir_), sorted(subdirs),
                sorted(subfiles)])
        return sorted(result)

    def probe(builder, dir_):
        executed.append('probe')
        return builder.is_dir(dir_)

    def write_out(builder, filename):
        executed.append('write_out')
        with builder.read_text(os.path.join(root, 'src', 'a.txt')) as file_:
            text = file_.read()
        with open(filename, 'w') as file_:
            file_.write(text.upper())
        return len(text)

    def build_func(builder):
        return [
            builder.subbuild('scan', scan, root),
            builder.subbuild('probe', probe, cache_dir),
            builder.build_file(out_filename, 'write_out', write_out),
        ]

    def build():
        del executed[:]
        value = FileBuilder.build(cache_filename, 'demo', build_func)
        return value, list(executed)

    def out_stat():
        stats = os.stat(out_filename)
        return (stats.st_ino, stats.st_mtime_ns, stats.st_size)

    problems = []
    value0, executed0 = build()
    stat0 = out_stat()
    print('  build #0 (from scratch): executed {!r}'.format(executed0))
    print('           value = {!r}'.format(value0))
    if sorted(executed0) != ['probe', 'scan', 'write_out']:
        problems.append('build #0 did not execute every function once')

    prev_value = value0
    for index in (1, 2):
        # Nothing at all is changed between the builds
        value, executed_now = build()
        print('  build #{:d} (unchanged rebuild): executed {!r}'.format(
            index, executed_now))
        print('           value = {!r}'.format(value))
        if executed_now:
            problems.append(
                'unchanged rebuild #{:d} re-executed {!r}, although no call '
                'raised in the previous build and nothing changed'.format(
                    index, executed_now))
        if value != prev_value:
            problems.append(
                'unchanged rebuild #{:d} returned {!r}, but the previous '
                'build returned {!r}'.format(index, value, prev_value))
        if out_stat() != stat0:
            problems.append(
                'unchanged rebuild #{:d} rewrote the output file'.format(
                    index))
        if os.path.isdir(cache_dir) != bool(value[1]):
            # Informational only; the property is judged on the re-execution
            # and on the returned values
            print(
                '           note: is_dir({!r}) answered {!r}, but the '
                'directory really exists (the library created it for the '
                'cache file)'.format(cache_dir, value[1]))
        prev_value = value
    return problems


def main():
    base = tempfile.mkdtemp(prefix='c05h_demo_')
    try:
        print(
            'Scenario A: the cache directory does not exist before build #0 '
            '(FileBuilder creates it)')
        problems = run_history(os.path.join(base, 'a'), False)
        print(
            'Scenario B (control): same build, but the cache directory was '
            'created by the user beforehand')
        control_problems = run_history(os.path.join(base, 'b'), True)
    finally:
        shutil.rmtree(base, ignore_errors=True)

    if control_problems:
        print('CONTROL ALSO VIOLATES C05:')
        for problem in control_problems:
            print('  - ' + problem)
    if problems:
        print('C05 VIOLATED:')
        for problem in problems:
            print('  - ' + problem)
    if problems or control_problems:
        return 1
    print('OK: unchanged rebuilds re-executed nothing')
    return 0


if __name__ == '__main__':
    sys.exit(main())
