"""C02 (rollback) violation: a failed multi-threaded build leaves an output file
of the PREVIOUS build with the bytes written by the FAILED build.

History
    build 1 (committed): build_file(<root>/f/g/h) writes b'OLD'
                         (directories f and f/g are created by the build).

Failing build 2 (same cache file), the build function starts two threads, joins
them, and then raises Boom:
    thread B: build_file(<root>/f/g)      - f/g is now to become a regular file
    thread A: build_file(<root>/f/g/h)    - new argument, so h is rebuilt
Both calls cannot succeed in the same build; whichever loses gets an
IsADirectoryError / NotADirectoryError / RuntimeError, which the thread
catches (FileBuilder is documented as thread-safe, and each call on its own is
legal).

Forced schedule (only by *waiting*, nothing is altered):
    1. B checks that f/g is (virtually) removed and enters _make_room(f/g).
       We hold B at the entry of _make_room.
    2. A runs build_file(f/g/h): moves the old h aside (backup #1), calls the
       user function, which writes the new h and then waits for B.
    3. B continues: _make_room() asks is_file(f/g/h); because h "is being
       built" the answer is False, so _make_room treats A's half-built file as
       a leftover of the previous build and moves it aside too (backup #2 for
       the SAME path), removes directory f/g and builds the file f/g.
    4. A's function returns, build_file(f/g/h) raises ("didn't create that
       file"), the thread catches it.
    5. The build function raises Boom -> roll back.  restore_all() replays the
       backups oldest first: backup #1 (b'OLD') is put back at f/g/h and then
       backup #2 (the bytes written by the failed build) is moved on top of it.

Expected (property C02): after the failed call f/g/h has bytes b'OLD' and its
old modification time.  Observed: f/g/h contains b'NEW-FROM-FAILED-BUILD'.
"""
import logging
import os
import shutil
import sys
import tempfile
import threading

sys.path.insert(0, os.environ.get('FB_PATH', '/tmp/wt_C02h'))
from file_builder import FileBuilder  # noqa: E402
from file_builder import file_builder as fb_module  # noqa: E402

TIMEOUT = 20
logging.disable(logging.CRITICAL)


class Boom(Exception):
    pass


def snapshot(root):
    snap = {}
    for dirpath, dirnames, filenames in os.walk(root):
        for name in dirnames:
            full = os.path.join(dirpath, name)
            snap[os.path.relpath(full, root)] = ('dir',)
        for name in filenames:
            full = os.path.join(dirpath, name)
            with open(full, 'rb') as file_:
                data = file_.read()
            snap[os.path.relpath(full, root)] = (
                'file', data, os.stat(full).st_mtime_ns)
    return snap


def write_file(builder, filename, content):
    with open(filename, 'w') as file_:
        file_.write(content)
    return content


def main():
    root = tempfile.mkdtemp(prefix='c02h_')
    try:
        return run(root)
    finally:
        shutil.rmtree(root, ignore_errors=True)


def run(root):
    cache = os.path.join(root, 'cache.gz')
    g = os.path.join(root, 'f', 'g')
    h = os.path.join(g, 'h')

    # ---- build 1: committed ------------------------------------------------
    def build1(builder):
        builder.build_file(h, 'write_file', write_file, 'OLD')
    FileBuilder.build(cache, 'demo', build1)

    before = snapshot(root)

    # ---- build 2: fails ----------------------------------------------------
    b_at_make_room = threading.Event()
    a_in_func = threading.Event()
    b_done = threading.Event()
    log = []

    original_make_room = fb_module.FileBuilder._make_room
    held = []

    def waiting_make_room(self, dir_, make_room_filename):
        # Identical to the original, except that the first call for f/g waits
        # until thread A is inside its build function
        if dir_ == g and not held:
            held.append(True)
            b_at_make_room.set()
            a_in_func.wait(TIMEOUT)
        return original_make_room(self, dir_, make_room_filename)

    def func_a(builder, filename, content):
        with open(filename, 'w') as file_:
            file_.write(content)
        a_in_func.set()
        b_done.wait(TIMEOUT)
        return content

    def thread_a(builder):
        # Start only once B is at the entry of _make_room (or is done)
        while not (b_at_make_room.is_set() or b_done.is_set()):
            b_at_make_room.wait(0.05)
        try:
            builder.build_file(h, 'write_file', func_a, 'NEW-FROM-FAILED-BUILD')
            log.append('A: build_file(f/g/h) succeeded')
        except (OSError, RuntimeError) as exception:
            log.append('A: build_file(f/g/h) raised {!r}'.format(exception))
        finally:
            a_in_func.set()

    def thread_b(builder):
        try:
            builder.build_file(g, 'write_file', write_file, 'G-AS-A-FILE')
            log.append('B: build_file(f/g) succeeded')
        except (OSError, RuntimeError) as exception:
            log.append('B: build_file(f/g) raised {!r}'.format(exception))
        finally:
            b_done.set()

    boom = Boom('the build function fails after both threads have finished')

    def build2(builder):
        threads = [
            threading.Thread(target=thread_b, args=(builder,)),
            threading.Thread(target=thread_a, args=(builder,))]
        for thread in threads:
            thread.start()
        for thread in threads:
            thread.join()
        raise boom

    fb_module.FileBuilder._make_room = waiting_make_room
    raised = None
    try:
        FileBuilder.build(cache, 'demo', build2)
    except BaseException as exception:
        raised = exception
    finally:
        fb_module.FileBuilder._make_room = original_make_room

    after = snapshot(root)

    problems = []
    if raised is not boom:
        problems.append(
            'build() did not re-raise the exception object of the build '
            'function: {!r}'.format(raised))
    for rel, value in sorted(before.items()):
        if value[0] == 'file' and after.get(rel) != value:
            problems.append(
                'file {} existed before the failed build as {!r} but is now '
                '{!r}'.format(rel, value, after.get(rel)))
    for rel, value in sorted(after.items()):
        if rel not in before:
            problems.append(
                '{} {} was created by the failed build and remains'.format(
                    value[0], rel))

    for line in log:
        print(line)
    if problems:
        print('C02 VIOLATED: the failed build was not rolled back')
        for problem in problems:
            print('  - ' + problem)
        return 1
    print('OK: the failed build left the pre-build state')
    return 0


if __name__ == '__main__':
    sys.exit(main())
