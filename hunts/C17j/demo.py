"""C17 demo: a build_file call that is rejected with RuntimeError because its
builder was closed meanwhile nevertheless builds the file and records it.

Only the public API is used, no monkeypatching, no faults:

* the root function calls builder.subbuild('S', S)
* S(sb) starts a thread that calls sb.build_file(out, 'f', f) (the way the
  documentation recommends to parallelize) and returns as soon as f is
  running, without joining the thread
* the root function then lets f finish and joins the thread, so that nothing
  is running any more when the root function returns

The straggler's call passed the "not finished" check on entry, S returns and
its record is closed, then the straggler's call completes: it raises
RuntimeError ("This FileBuilder instance has already finished executing the
subbuild function S"), i.e. it is rejected, but all of its effects stay.

Exit status 1 = property violated, 0 = property holds.
"""
import gzip
import json
import os
import shutil
import sys
import tempfile
import threading

sys.path.insert(0, os.environ.get('FB_PATH', '/tmp/wt_C17j'))

from file_builder import FileBuilder  # noqa: E402

TIMEOUT = 5


def find_build_file_records(operations, filename, path, found):
    """Collect the paths of the build_file records for filename."""
    for operation in operations:
        if operation.get('type') == 'build_file':
            name = 'build_file({:s})'.format(
                os.path.basename(operation['filename']))
        elif operation.get('type') == 'subbuild':
            name = 'subbuild({:s})'.format(operation['funcName'])
        else:
            continue
        if (operation.get('type') == 'build_file' and
                operation['filename'] == filename):
            found.append(path + [name])
        find_build_file_records(
            operation['suboperations'], filename, path + [name], found)


def main(tmp):
    cache_filename = os.path.join(tmp, 'cache.gz')
    out = os.path.join(tmp, 'o', 'out.txt')
    result = {}
    counts = {'S': 0, 'f': 0}
    f_is_running = threading.Event()
    s_has_returned = threading.Event()

    def f(builder, filename):
        counts['f'] += 1
        f_is_running.set()
        # Finish only after S has returned (i.e. after sb has been closed)
        s_has_returned.wait(TIMEOUT)
        with open(filename, 'w') as file_:
            file_.write('written by the straggler\n')
        return 'f returned'

    def straggler(sb):
        try:
            result['returned'] = sb.build_file(out, 'f', f)
        except BaseException as exception:
            result['raised'] = exception

    def S(sb):
        counts['S'] += 1
        thread = threading.Thread(target=straggler, args=(sb,))
        thread.start()
        result['thread'] = thread
        # The call sb.build_file(...) is in progress now
        f_is_running.wait(TIMEOUT)
        return 'S returned'

    def root(builder):
        value = builder.subbuild('S', S)
        # S has returned (or its result was reused). Let the straggler finish
        # and wait for it, so that no thread survives the root function.
        s_has_returned.set()
        if 'thread' in result:
            result['thread'].join()
        return value

    violations = []

    # ---- Build 1
    FileBuilder.build(cache_filename, 'demo', root)
    exists1 = os.path.isfile(out)
    with gzip.open(cache_filename, 'rt') as file_:
        cache_json = json.load(file_)
    records = []
    find_build_file_records(cache_json['rootOperations'], out, [], records)
    record_paths = [' > '.join(path) for path in records]

    if 'raised' in result:
        exception = result['raised']
        print('straggler: sb.build_file(out, ...) raised {!r}'.format(
            exception))
        if not isinstance(exception, RuntimeError):
            violations.append(
                'the call on the closed builder raised {:s} instead of '
                'RuntimeError'.format(type(exception).__name__))
        # The call was rejected, so it must not have had any effect
        if exists1:
            violations.append(
                'sb.build_file(out, ...) was rejected with {:s} because sb '
                'was closed, but the file it built is still there after the '
                'build: {:s}'.format(type(exception).__name__, out))
        if record_paths:
            violations.append(
                'sb.build_file(out, ...) was rejected with {:s}, but the '
                'cache file contains its record: {!s}'.format(
                    type(exception).__name__, record_paths))
    else:
        print('straggler: sb.build_file(out, ...) returned {!r}'.format(
            result.get('returned')))
        # The call succeeded, so it must be part of the record of S
        if not exists1:
            violations.append(
                'sb.build_file(out, ...) returned normally, but {:s} does '
                'not exist after the build'.format(out))
        if record_paths != ['subbuild(S) > build_file(out.txt)']:
            violations.append(
                'sb.build_file(out, ...) returned normally, but it is not '
                '(only) part of the record of S: {!s}'.format(record_paths))
    print('after build 1: out exists = {!s}, build_file records of out in '
          'the cache file = {!s}'.format(exists1, record_paths))

    # ---- Build 2: nothing has changed, so the result of S is reused and the
    # outcome must be the same as that of build 1
    calls_before = counts['S']
    FileBuilder.build(cache_filename, 'demo', root)
    exists2 = os.path.isfile(out)
    print('after build 2: S was {:s}, out exists = {!s}'.format(
        'reused from the cache' if counts['S'] == calls_before else 'called',
        exists2))
    if exists1 != exists2:
        violations.append(
            'an unchanged second build {:s} {:s}: the record of S that build '
            '1 closed does not contain the build_file call whose effects '
            'build 1 kept'.format(
                'removed' if exists1 else 'created', out))

    return violations


if __name__ == '__main__':
    tmp = tempfile.mkdtemp()
    try:
        violations = main(tmp)
    finally:
        shutil.rmtree(tmp, ignore_errors=True)
    if violations:
        print('C17 VIOLATED:')
        for violation in violations:
            print(' - ' + violation)
        sys.exit(1)
    print('C17 holds in this scenario')
    sys.exit(0)
