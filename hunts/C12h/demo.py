"""C12 demo: after one transient OSError from os.listdir during a build, clean()
leaves behind a directory that the builds created.

History (single-threaded, public API only):

  build 1   build_file(<root>/d/out)            -> creates directory d and d/out
  build 2   try: builder.is_dir(<root>/d)       -> the one os.listdir call made for
            except OSError: pass                   this query raises EIO (injected once)
            build_file(<root>/d/out)  (same)    -> fine, build 2 commits
  clean                                         -> must remove d/out, the cache file
                                                   and the (now empty) directory d

The same history without the fault is run first as a control.

Exit status 1 = property violated, 0 = fine.
"""
import errno
import logging
import os
import shutil
import sys
import tempfile

sys.path.insert(0, os.environ.get('FB_PATH', '/tmp/wt_C12h'))
from file_builder import FileBuilder  # noqa: E402

logging.disable(logging.CRITICAL)


def write_out(builder, filename):
    with open(filename, 'w') as file_:
        file_.write('output')
    return 'done'


def tree(root):
    result = []
    for dir_, subdirs, subfiles in os.walk(root):
        for name in subdirs:
            result.append(os.path.relpath(os.path.join(dir_, name), root) + '/')
        for name in subfiles:
            result.append(os.path.relpath(os.path.join(dir_, name), root))
    return sorted(result)


class ListdirFaultOnce:
    """Makes the first os.listdir(path) call for the given path raise EIO.

    All other calls (and all later calls for that path) go to the real
    os.listdir unchanged.
    """

    def __init__(self, path):
        self.path = path
        self.fired = 0

    def __enter__(self):
        self.orig = os.listdir

        def listdir(*args, **kwargs):
            if (not self.fired and args and
                    isinstance(args[0], str) and
                    os.path.normcase(args[0]) == os.path.normcase(self.path)):
                self.fired += 1
                raise OSError(errno.EIO, 'injected transient I/O error', args[0])
            return self.orig(*args, **kwargs)

        os.listdir = listdir
        return self

    def __exit__(self, *exc_info):
        os.listdir = self.orig


def run_history(top, name, inject):
    root = os.path.join(top, name)
    os.mkdir(root)
    cache = os.path.join(root, 'cache')
    dir_ = os.path.join(root, 'd')
    out = os.path.join(dir_, 'out')
    notes = []

    def build1(builder):
        builder.build_file(out, 'write_out', write_out)

    def build2(builder):
        try:
            notes.append('is_dir(d) returned %r' % builder.is_dir(dir_))
        except OSError as exception:
            # A transient I/O error while querying; carry on with the build
            notes.append('is_dir(d) raised %r' % exception)
        builder.build_file(out, 'write_out', write_out)

    FileBuilder.build(cache, 'demo', build1)
    after_build1 = tree(root)

    if inject:
        with ListdirFaultOnce(dir_) as fault:
            FileBuilder.build(cache, 'demo', build2)
        if fault.fired != 1:
            raise RuntimeError('the fault was not injected exactly once')
    else:
        FileBuilder.build(cache, 'demo', build2)
    after_build2 = tree(root)

    FileBuilder.clean(cache, 'demo')
    after_clean = tree(root)
    FileBuilder.clean(cache, 'demo')
    after_second_clean = tree(root)
    return notes, after_build1, after_build2, after_clean, after_second_clean


def main():
    top = tempfile.mkdtemp()
    try:
        control = run_history(top, 'control', False)
        faulty = run_history(top, 'faulty', True)
    finally:
        shutil.rmtree(top, ignore_errors=True)

    problems = []
    for label, result in (('control (no fault)', control),
                          ('one EIO from os.listdir in build 2', faulty)):
        notes, after_build1, after_build2, after_clean, after_second = result
        print('--- ' + label)
        for note in notes:
            print('    build 2: ' + note)
        print('    tree after build 1:      %r' % after_build1)
        print('    tree after build 2:      %r' % after_build2)
        print('    tree after clean:        %r' % after_clean)
        print('    tree after second clean: %r' % after_second)
        # Nothing in the tree is foreign: everything was created by the
        # builds, so clean must leave an empty tree
        if after_clean:
            problems.append(
                '%s: clean left behind %r, although everything in the tree '
                'was created by the builds (d was created by build 1 and '
                're-created, in the from-scratch sense, by build 2)' %
                (label, after_clean))
        if after_second != after_clean:
            problems.append(
                '%s: a second clean changed the tree again' % label)

    if problems:
        print('C12 VIOLATED:')
        for problem in problems:
            print('  ' + problem)
        return 1
    print('C12 holds for this history')
    return 0


if __name__ == '__main__':
    sys.exit(main())
