#!/usr/bin/env python
"""C10: the return value of a build_file function must come back JSON-normalised,
i.e. as json.loads(json.dumps(value)) (this is what the documentation of
build_file_with_comparison and of JsonUtil.sanitize promise).

A member of a ``class Color(str, enum.Enum)`` (or any other str subclass that
overrides __str__) is a perfectly good JSON value: json.dumps serialises it by
its string *contents* ("red").  FileBuilder's JsonUtil.sanitize converts it
with ``str(value)`` instead, which calls the subclass' __str__ and yields
'Color.RED'.  So build_file returns (and stores in the cache file) a value that
is different from the JSON-normalised return value of the function - both for
values and for dict keys.

Exit status 1 = property violated, 0 = fine.
"""
import enum
import json
import os
import shutil
import sys
import tempfile

sys.path.insert(0, os.environ.get('FB_PATH', '/tmp/wt_C10i'))
from file_builder import FileBuilder  # noqa: E402


class Color(str, enum.Enum):
    RED = 'red'


class Tag(str):
    """A str subclass with its own __str__ (e.g. for pretty printing)."""

    def __str__(self):
        return '<tag {}>'.format(str.__str__(self))


def raw_value():
    return {'colour': Color.RED, Color.RED: 1, 'tags': [Tag('x')]}


def write_it(builder, filename):
    with open(filename, 'w') as file_:
        file_.write('content')
    return raw_value()


def all_plain(value):
    """Whether value only consists of the exact types json.loads produces."""
    cls = value.__class__
    if cls is dict:
        return all(
            key.__class__ is str and all_plain(sub)
            for key, sub in value.items())
    elif cls is list:
        return all(all_plain(sub) for sub in value)
    return cls in (str, int, float, bool) or value is None


def main():
    root = tempfile.mkdtemp()
    problems = []
    try:
        target = os.path.join(root, 'out', 'dir', 'target.txt')
        cache = os.path.join(root, 'cache.gz')
        expected = json.loads(json.dumps(raw_value()))
        # -> {'colour': 'red', 'red': 1, 'tags': ['x']}

        def build_func(builder):
            return builder.build_file(target, 'write_it', write_it)

        first = FileBuilder.build(cache, 'demo', build_func)
        second = FileBuilder.build(cache, 'demo', build_func)  # cached

        if not os.path.isfile(target):
            problems.append('the target was not built')
        for label, got in (('first build', first), ('cached build', second)):
            if not all_plain(got):
                problems.append(
                    '{}: return value is not made of plain JSON types: '
                    '{!r}'.format(label, got))
            if got != expected:
                problems.append(
                    '{}: build_file returned {!r}, but the JSON-normalised '
                    'return value of the function, json.loads(json.dumps(v)), '
                    'is {!r}'.format(label, got, expected))
    finally:
        shutil.rmtree(root, ignore_errors=True)

    if problems:
        print('C10 VIOLATED: the return value of the build_file function does '
              'not come back JSON-normalised')
        for problem in problems:
            print(' - ' + problem)
        return 1
    print('ok: return value came back JSON-normalised')
    return 0


if __name__ == '__main__':
    sys.exit(main())
