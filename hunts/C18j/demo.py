"""C18: JsonUtil.sanitize is not a JSON round trip for int/float subclasses
that override __int__ / __float__.

json.dumps serialises an instance of a subclass of int or float from its real
numeric value (int.__repr__ / float.__repr__) and never calls __int__ or
__float__.  JsonUtil.sanitize converts such values with int(value) and
float(value), which DO dispatch to an overridden __int__ / __float__.  So the
sanitised value differs from json.loads(json.dumps(value)), and the number a
build function receives (and that is recorded in the cache) is not the number
the caller passed.
"""
import json
import os
import shutil
import sys
import tempfile
import warnings

sys.path.insert(0, os.environ.get('FB_PATH', '/tmp/wt_C18j'))

from file_builder import FileBuilder  # noqa: E402
from file_builder.json_util import JsonUtil  # noqa: E402

warnings.simplefilter('ignore')


class Cents(int):
    """An amount stored in cents; int() gives whole units of currency."""

    def __int__(self):
        return int.__floordiv__(self, 100)


class Percent(float):
    """A percentage; float() gives the fraction."""

    def __float__(self):
        return float.__truediv__(self, 100.0)


def typed(value):
    """A representation that also captures the concrete types."""
    if type(value) is list:
        return ['list'] + [typed(element) for element in value]
    if type(value) is dict:
        return ['dict'] + [[typed(k), typed(v)] for k, v in value.items()]
    return [type(value).__name__, repr(value)]


def main():
    problems = []

    # Part 1: the pure function
    values = [
        Cents(1234),
        Percent(12.5),
        [Cents(1234), {'rate': Percent(12.5)}],
        (Percent('inf'),),
    ]
    for value in values:
        expected = json.loads(json.dumps(value))
        actual = JsonUtil.sanitize(value)
        if typed(expected) != typed(actual):
            problems.append(
                'JsonUtil.sanitize({!r}) = {!r}, but '
                'json.loads(json.dumps(...)) = {!r}'.format(
                    value, actual, expected))

    # Part 2: the same thing through the public API
    temp_dir = tempfile.mkdtemp()
    try:
        cache_filename = os.path.join(temp_dir, 'cache.gz')
        output_filename = os.path.join(temp_dir, 'out.txt')
        received = {}

        def build_file(builder, filename, amount, rate=None):
            received['build_file'] = (amount, rate)
            with open(filename, 'w') as file_:
                file_.write('{!r} {!r}'.format(amount, rate))
            return Cents(1234)

        def subbuild(builder, amount):
            received['subbuild'] = amount
            return Percent(12.5)

        def build(builder):
            result1 = builder.build_file(
                output_filename, 'build_file', build_file, Cents(1234),
                rate=Percent(12.5))
            result2 = builder.subbuild('subbuild', subbuild, Cents(1234))
            return (result1, result2)

        result1, result2 = FileBuilder.build(cache_filename, 'demo', build)
        with open(output_filename) as file_:
            content = file_.read()

        expected_args = json.loads(json.dumps([Cents(1234), Percent(12.5)]))
        if typed(list(received['build_file'])) != typed(expected_args):
            problems.append(
                'build_file function received {!r} (file content {!r}) instead '
                'of the JSON round trip {!r} of the arguments'.format(
                    received['build_file'], content, tuple(expected_args)))
        if typed(received['subbuild']) != typed(expected_args[0]):
            problems.append(
                'subbuild function received {!r} instead of {!r}'.format(
                    received['subbuild'], expected_args[0]))
        if typed(result1) != typed(json.loads(json.dumps(Cents(1234)))):
            problems.append(
                'build_file returned {!r} for a function result whose JSON '
                'round trip is {!r}'.format(
                    result1, json.loads(json.dumps(Cents(1234)))))
        if typed(result2) != typed(json.loads(json.dumps(Percent(12.5)))):
            problems.append(
                'subbuild returned {!r} for a function result whose JSON '
                'round trip is {!r}'.format(
                    result2, json.loads(json.dumps(Percent(12.5)))))
    finally:
        shutil.rmtree(temp_dir, ignore_errors=True)

    if problems:
        print('C18 VIOLATED: sanitize is not a JSON round trip')
        for problem in problems:
            print(' - ' + problem)
        return 1
    print('OK: sanitize agrees with json.loads(json.dumps(...))')
    return 0


if __name__ == '__main__':
    sys.exit(main())
