"""Running TLC: batch trace validation and model checking, output parsing."""
import json
import os
import re
import shutil
import subprocess
import tempfile
import time
from concurrent.futures import ThreadPoolExecutor

from .sandbox import scratch_root

SPEC_DIR = os.path.join(os.path.dirname(os.path.dirname(os.path.abspath(__file__))), 'spec')
TLC_CP = '/opt/veriftools/tla/tla2tools.jar:/opt/veriftools/tla/CommunityModules-deps.jar'
VERDICT_RE = re.compile(r'<<\s*"VERDICT",\s*"([^"]*)",\s*"(accepted|rejected)",\s*(\d+),\s*"([^"]*)",\s*\{([^}]*)\},\s*<<([\d,\s]*)>>,\s*\{([^}]*)\}\s*>>')
STAT_NAMES = ('q', 'inv', 'invfound', 'reuse', 'sfail', 'commit', 'rollback', 'clean', 'refuse',
              'nestedreuse', 'failrec')


class TlcError(Exception):
    pass


def tlc_cmd(cfg, module, workers=1, extra=(), metadir=None, heap='2g', short=False):
    # short-lived single-worker JVMs (trace validation): serial GC + C1 only, otherwise 16
    # JVMs fight over GC / JIT threads (measured: 3.6 s vs 6.6 s for one batch, worse in parallel)
    jvm = ['-XX:+UseSerialGC', '-XX:TieredStopAtLevel=1'] if short else ['-XX:+UseParallelGC']
    cmd = ['java'] + jvm + ['-Xss16m', '-Xmx' + heap, '-cp', TLC_CP, 'tlc2.TLC',
           '-workers', str(workers), '-noGenerateSpecTE', '-config', cfg]
    if metadir:
        cmd += ['-metadir', metadir]
    cmd += list(extra) + [module]
    return cmd


def parse_stats(out):
    st = {'states': 0, 'distinct': 0, 'depth': 0}
    m = re.search(r'(\d+) states generated, (\d+) distinct states found', out)
    if m:
        st['states'] = int(m.group(1))
        st['distinct'] = int(m.group(2))
    m = re.search(r'depth of the complete state graph search is (\d+)', out)
    if m:
        st['depth'] = int(m.group(1))
    return st


def trace_cfg(open_kf=(), cache='CP_K', invariants=()):
    kf = '{' + ', '.join('"%s"' % k for k in sorted(open_kf)) + '}'
    lines = ['SPECIFICATION TraceSpec', 'CONSTANT CachePath <- %s' % cache, 'CONSTANT OpenKF = %s' % kf]
    lines += ['INVARIANT %s' % i for i in invariants]
    lines += ['CHECK_DEADLOCK FALSE', '']
    return '\n'.join(lines)


def validate_batch(traces, cfg=None, module='FBTrace.tla', timeout=1800, workdir=None, open_kf=(), cache='CP_K'):
    """Validate one batch of traces in one JVM.  Returns (verdicts, stats, out)."""
    own = workdir is None
    workdir = workdir or tempfile.mkdtemp(prefix='fbv_tlc_', dir=scratch_root())
    try:
        if cfg is None:
            cfg = os.path.join(workdir, 'trace.cfg')
            with open(cfg, 'w') as f:
                f.write(trace_cfg(open_kf, cache))
        tf = os.path.join(workdir, 'traces.ndjson')
        with open(tf, 'w') as f:
            for t in traces:
                f.write(json.dumps({'id': t['id'], 'events': [{k: v for k, v in e.items() if k != 'tb'}
                                                              for e in t['events']]},
                                   separators=(',', ':')) + '\n')
        env = dict(os.environ, TRACE_FILE=tf)
        cmd = tlc_cmd(cfg, module, 1, metadir=os.path.join(workdir, 'meta'), short=True)
        p = subprocess.run(cmd, cwd=SPEC_DIR, env=env, stdout=subprocess.PIPE, stderr=subprocess.STDOUT,
                           timeout=timeout, text=True)
        out = p.stdout
        verdicts = {}
        for m in VERDICT_RE.finditer(out):
            verdicts[m.group(1)] = {'verdict': m.group(2), 'at': int(m.group(3)), 'clause': m.group(4),
                                    'also': re.findall(r'"([^"]+)"', m.group(5)),
                                    'st': dict(zip(STAT_NAMES, [int(x) for x in m.group(6).split(',')])),
                                    'kf': re.findall(r'"([^"]+)"', m.group(7))}
        stats = parse_stats(out)
        if len(verdicts) != len(traces) or 'Model checking completed' not in out:
            i = out.find('Error:')
            raise TlcError('TLC did not produce a verdict for every trace (%d of %d)\n%s\n...\n%s'
                           % (len(verdicts), len(traces), out[max(0, i - 200):i + 2500] if i >= 0 else '', out[-3500:]))
        return verdicts, stats, out
    finally:
        if own:
            shutil.rmtree(workdir, ignore_errors=True)


def validate(traces, jobs=16, batch=None, cfg=None, module='FBTrace.tla', timeout=3600, open_kf=()):
    """Validate traces in parallel batches.  Returns (verdicts by id, summed stats)."""
    if not traces:
        return {}, {'states': 0, 'distinct': 0, 'depth': 0, 'jvms': 0, 'wall_s': 0.0}
    ids = [t['id'] for t in traces]
    if len(set(ids)) != len(ids):
        raise TlcError('duplicate trace ids')
    groups = {}
    for t in traces:      # one configuration constant per cache path
        groups.setdefault({('c', 'k'): 'CP_CK', ('c', 'c2', 'k'): 'CP_CCK'}.get(tuple(t.get('cache') or ()), 'CP_K'), []).append(t)
    chunks = []
    for cp, ts in groups.items():
        if batch:
            chunks += [(cp, ts[i:i + batch]) for i in range(0, len(ts), batch)]
            continue
        # one JVM per bin; bins balanced by the number of events (a few very long traces - the `bulk` histories -
        # would otherwise sit in one batch and dominate the wall time): longest first into the lightest bin
        nb = min(jobs, len(ts))
        bins = [[0, []] for _ in range(nb)]
        for t in sorted(ts, key=lambda t: -len(t['events'])):
            b = min(bins, key=lambda x: x[0])
            b[0] += len(t['events']) + 5
            b[1].append(t)
        chunks += [(cp, b[1]) for b in bins if b[1]]
    t0 = time.time()
    verdicts = {}
    tot = {'states': 0, 'distinct': 0, 'depth': 0, 'jvms': len(chunks)}
    with ThreadPoolExecutor(max_workers=jobs) as ex:
        for v, st, _ in ex.map(lambda c: validate_batch(c[1], cfg, module, timeout, None, open_kf, c[0]), chunks):
            verdicts.update(v)
            tot['states'] += st['states']
            tot['distinct'] += st['distinct']
            tot['depth'] = max(tot['depth'], st['depth'])
    tot['wall_s'] = round(time.time() - t0, 2)
    return verdicts, tot


def model_check(cfg, module, workers=16, timeout=3600, extra=(), heap='8g', soft_timeout=None):
    """Run an exhaustive TLC job.  Returns (ok, stats, out).  With soft_timeout the run is
    stopped after that many seconds and reported as a bounded (non-exhaustive) exploration."""
    # TLC's state queue and fingerprint files of a long exhaustive run are many gigabytes: on disk, not in the
    # RAM-backed scratch directory used for sandboxes and trace batches
    workdir = tempfile.mkdtemp(prefix='fbv_mc_', dir=tempfile.gettempdir() if os.path.isdir(tempfile.gettempdir()) else scratch_root())
    try:
        cmd = tlc_cmd(cfg, module, workers, extra=extra, metadir=os.path.join(workdir, 'meta'), heap=heap)
        t0 = time.time()
        timed_out = False
        proc = subprocess.Popen(cmd, cwd=SPEC_DIR, stdout=subprocess.PIPE, stderr=subprocess.STDOUT, text=True)
        try:
            out, _ = proc.communicate(timeout=soft_timeout or timeout)
        except subprocess.TimeoutExpired:
            timed_out = True
            proc.kill()
            out, _ = proc.communicate()
        st = parse_stats(out)
        if timed_out:
            m = re.findall(r'([\d,]+) states generated \([\d,]+ s/min\), ([\d,]+) distinct states found', out)
            if m:
                st['states'] = int(m[-1][0].replace(',', ''))
                st['distinct'] = int(m[-1][1].replace(',', ''))
            st['timed_out'] = True
        st['wall_s'] = round(time.time() - t0, 2)
        ok = ('Model checking completed. No error has been found' in out) or \
             (timed_out and 'Error' not in out)
        return ok, st, out
    finally:
        shutil.rmtree(workdir, ignore_errors=True)


def apalache_inductive(module='FBSlotApa.tla', init='Init', indinv='IndInv', goal='SlotsDistinct', timeout=600):
    """Discharge an inductive invariant with Apalache: Init => IndInv, IndInv /\\ Next => IndInv', IndInv => goal.
    Returns (ok, details)."""
    work = tempfile.mkdtemp(prefix='fbv_apa_', dir=scratch_root())
    details = []
    ok = True
    try:
        shutil.copy(os.path.join(SPEC_DIR, module), work)
        for tag, args in (('base', ['--init=' + init, '--inv=' + indinv, '--length=0']),
                          ('step', ['--init=' + indinv, '--inv=' + indinv, '--length=1']),
                          ('goal', ['--init=' + indinv, '--inv=' + goal, '--length=0'])):
            t0 = time.time()
            p = subprocess.run(['apalache-mc', 'check'] + args + ['--out-dir=' + os.path.join(work, 'o_' + tag), module],
                               cwd=work, stdout=subprocess.PIPE, stderr=subprocess.STDOUT, text=True, timeout=timeout)
            good = 'EXITCODE: OK' in p.stdout and 'NoError' in p.stdout
            details.append({'obligation': tag, 'ok': good, 'wall_s': round(time.time() - t0, 1)})
            if not good:
                ok = False
                details[-1]['tail'] = p.stdout[-800:]
        return ok, details
    finally:
        shutil.rmtree(work, ignore_errors=True)
