"""Cooperative scheduler for deterministic thread interleavings (DESIGN.md 3.2/3.3).

Real threads, exactly one runnable at a time.  Control changes hands only at
*yield points*: every interposed OS call and every acquire/release of a
library lock (the library's `threading.Lock()` calls are served by CoopLock).
A schedule is a set of preemptions {(thread index, k)}: at its k-th yield
point that thread is descheduled and the next runnable thread continues; a
thread also loses the processor when it blocks on a lock or finishes.  With
that, "all schedules with at most b preemptions" is a finite enumeration over
yield points that are *measured* from the code.
"""
import os
import threading


class SchedDeadlock(Exception):
    pass


class Sched:
    def __init__(self, preempt=(), rnd=None, p_switch=0.0):
        self.preempt = set(tuple(x) for x in preempt)
        self.rnd = rnd
        self.p_switch = p_switch
        self.cv = threading.Condition()
        self.threads = []          # worker Thread objects, index = thread index
        self.idx = {}              # thread ident -> index
        self.state = []            # 'ready' | 'blocked' | 'done'
        self.waiting_on = {}       # index -> lock
        self.current = None
        self.yields = []           # per thread yield counter
        self.deadlock = False
        self.trace = []            # (thread, yield no, tag) for diagnostics
        self.switches = 0
        self.seq = 0
        self.lock_log = []         # (seq, thread index, id(lock)) for every acquisition by a scheduled thread
        self.held = {}             # thread index -> locks it holds, in acquisition order
        self.lock_edges = set()    # (role held, role acquired): observed nesting of lock acquisitions
        self.same_role_pairs = set()   # (role, instance held, instance acquired) for nested locks of one role
        self.line_files = None         # basenames of library modules whose executed lines are yield points

    # -- registration -------------------------------------------------------
    def me(self):
        return self.idx.get(threading.get_ident())

    def run(self, fns):
        """Run the callables as cooperative threads; returns when all are done."""
        n = len(fns)
        self.state = ['ready'] * n
        self.yields = [0] * n
        errors = [None] * n

        def body(i):
            with self.cv:
                self.idx[threading.get_ident()] = i
                while self.current != i and not self.deadlock:
                    self.cv.wait()
            try:
                if not self.deadlock:
                    if self.line_files:
                        # line-level yield points: every executed line of the named library modules (the small,
                        # lock-protected data structures) is a place where the thread can be preempted
                        import sys
                        sys.settrace(self._global_tracer)
                    try:
                        fns[i]()
                    finally:
                        if self.line_files:
                            import sys
                            sys.settrace(None)
            except BaseException as x:     # noqa
                errors[i] = x
            finally:
                with self.cv:
                    self.state[i] = 'done'
                    self._pick_next(i)
                    self.cv.notify_all()

        self.threads = [threading.Thread(target=body, args=(i,), name='w%d' % i, daemon=True) for i in range(n)]
        with self.cv:
            self.current = 0
        for t in self.threads:
            t.start()
        for t in self.threads:
            t.join(timeout=60)
        alive = [t for t in self.threads if t.is_alive()]
        if alive:
            with self.cv:
                self.deadlock = True
                self.cv.notify_all()
            for t in alive:
                t.join(timeout=5)
        return errors

    def _global_tracer(self, frame, event, arg):
        fn = frame.f_code.co_filename
        if os.sep + 'file_builder' + os.sep in fn and os.path.basename(fn) in self.line_files:
            return self._local_tracer
        return None

    def _local_tracer(self, frame, event, arg):
        if event == 'line':
            self.yield_point('line')
        return self._local_tracer

    # -- scheduling -----------------------------------------------------------
    def _pick_next(self, frm):
        """Choose the next runnable thread after `frm` (round robin); None if none."""
        n = len(self.state)
        for d in range(1, n + 1):
            j = (frm + d) % n
            if self.state[j] == 'ready':
                self.current = j
                return j
        self.current = None
        if any(s == 'blocked' for s in self.state):
            self.deadlock = True
        return None

    def _wait_turn(self, i):
        while self.current != i:
            if self.deadlock:
                raise SchedDeadlock('all threads blocked')
            self.cv.wait()

    def yield_point(self, tag, args=None):
        i = self.me()
        if i is None:
            return
        with self.cv:
            self.yields[i] += 1
            k = self.yields[i]
            self.seq += 1
            if len(self.trace) < 4000:
                self.trace.append((i, k, tag))
            switch = (i, k) in self.preempt
            if not switch and self.rnd is not None and self.p_switch and self.rnd.random() < self.p_switch:
                switch = True
            if switch and any(s == 'ready' for j, s in enumerate(self.state) if j != i):
                self.switches += 1
                self._pick_next(i)
                self.cv.notify_all()
                self._wait_turn(i)

    def pass_turn(self):
        """Give the processor to the next ready thread (if any) and wait for the next turn."""
        i = self.me()
        if i is None:
            return
        with self.cv:
            if any(st == 'ready' for j, st in enumerate(self.state) if j != i):
                self._pick_next(i)
                self.cv.notify_all()
                self._wait_turn(i)

    def block_on(self, lock):
        i = self.me()
        with self.cv:
            self.state[i] = 'blocked'
            self.waiting_on[i] = lock
            self._pick_next(i)
            self.cv.notify_all()
            if self.deadlock:
                raise SchedDeadlock('deadlock: every thread waits for a lock')
            self._wait_turn(i)

    def wake(self, lock):
        with self.cv:
            for j, l in list(self.waiting_on.items()):
                if l is lock and self.state[j] == 'blocked':
                    self.state[j] = 'ready'
                    del self.waiting_on[j]


class CoopLock:
    """Stand-in for threading.Lock inside the library.  Outside a scheduled
    section it behaves like an ordinary (non-reentrant) lock."""
    current_sched = None        # set by the harness while a `par` statement runs

    def __init__(self):
        self._owner = None
        self._real = threading.Lock()
        # role = where the library created the lock (module:attribute), e.g. cache.py:_files_lock
        self.role = '?'
        import sys
        f = sys._getframe(1)
        while f is not None:
            fn = f.f_code.co_filename
            if os.sep + 'file_builder' + os.sep in fn:
                import linecache
                import re
                m = re.search(r'self\.(\w+)\s*=', linecache.getline(fn, f.f_lineno))
                self.role = '%s:%s' % (os.path.basename(fn), m.group(1) if m else f.f_lineno)
                break
            f = f.f_back

    def acquire(self, blocking=True, timeout=-1):
        s = CoopLock.current_sched
        if s is None or s.me() is None:
            ok = self._real.acquire(blocking, timeout)
            if ok:
                self._owner = 'ext'
            return ok
        s.yield_point('lock.acquire')
        while self._owner is not None:
            if not blocking:
                return False
            s.block_on(self)
        self._owner = s.me()
        s.seq += 1
        s.lock_log.append((s.seq, s.me(), id(self)))
        mine = s.held.setdefault(s.me(), [])
        for h in mine:
            if h.role == self.role:
                s.same_role_pairs.add((self.role, id(h), id(self)))
            else:
                s.lock_edges.add((h.role, self.role))
        mine.append(self)
        return True

    def release(self):
        s = CoopLock.current_sched
        if s is not None and getattr(s, 'release_hook', None) is not None and s.me() is not None:
            s.release_hook()        # still inside the critical section: nobody else has run since the state change
        if self._owner == 'ext':
            self._owner = None
            self._real.release()
            return
        self._owner = None
        if s is not None:
            mine = s.held.get(s.me())
            if mine and self in mine:
                mine.remove(self)
            s.wake(self)
            if s.me() is not None:
                s.yield_point('lock.release')

    def locked(self):
        return self._owner is not None

    def __enter__(self):
        self.acquire()
        return self

    def __exit__(self, *a):
        self.release()
