"""Harness-side interposition between the library and the operating system
(DESIGN.md 3.2).  No change to /repo: the names `os`, `gzip`, `shutil`,
`tempfile`, `threading` and `open` *inside the library's modules* are rebound
to proxies for the duration of a scenario.

The proxies
  1. log every mutating call (seq, thread, name, args, ok | error)   (C03, C14)
  2. raise an injected OSError at the k-th eligible call               (C10, C14, C16)
  3. are yield points of the cooperative scheduler                     (C09, C17, C08)
"""
import errno
import gzip as _gzip
import os as _os
import shutil as _shutil
import sys
import tempfile as _tempfile
import threading as _threading

LIB_MODULES = ('file_builder.file_builder', 'file_builder.cache', 'file_builder.build_dirs',
               'file_builder.file_backups', 'file_builder.simple_operation_executor',
               'file_builder.created_files')

MUTATING = {'mkdir', 'makedirs', 'rename', 'replace', 'rmdir', 'remove', 'gzip.open:w', 'rmtree', 'mkdtemp'}
# calls "to create directories, move files aside or write the cache" (C14's fault space)
FAULTABLE = {'mkdir', 'makedirs', 'rename', 'replace', 'gzip.open:w', 'gzip.write'}      # replace: a move-aside since repair D29
READING = {'listdir', 'stat', 'isfile', 'isdir', 'exists', 'getsize', 'islink', 'open:r', 'gzip.open:r'}


class InjectedFault(OSError):
    pass


class Interposer:
    def __init__(self, fault_at=None, faultable=FAULTABLE, yield_hook=None, shuffle_listdir=None):
        self.log = []
        self.seq = 0
        self.eligible = 0
        self.fault_at = fault_at
        self.faultable = faultable
        self.fault_pending = False
        self.fault_fired = None
        self.yield_hook = yield_hook
        self.shuffle_listdir = shuffle_listdir
        self._saved = {}
        self.active = False
        self.fs_hook = None      # called for every successful mutating call (C03 call log)
        # fault scope "query": only calls the library makes while it answers a query of the program are eligible
        self.scope_query = False
        self.in_query = False

    # -- the single choke point ------------------------------------------
    def call(self, name, fn, args, kwargs):
        if self.yield_hook is not None:
            self.yield_hook(name, args)
        mut = name in MUTATING or name in self.faultable
        if (self.active and name in self.faultable and (not self.scope_query or self.in_query)
                and not _in_commit_or_rollback()):
            self.eligible += 1
            if self.fault_at is not None and self.eligible == self.fault_at and self.fault_fired is None:
                self.fault_fired = (name, _short(args))
                self.fault_pending = True
                self._rec(name, args, 'FAULT')
                raise OSError(errno.EIO, 'injected fault', str(args[0]) if args else None)
        try:
            r = fn(*args, **kwargs)
        except OSError as x:
            if mut:
                self._rec(name, args, x.__class__.__name__)
            raise
        if mut:
            self._rec(name, args, 'ok')
        if name == 'listdir' and self.shuffle_listdir is not None:
            r = list(r)
            self.shuffle_listdir.shuffle(r)
        return r

    def _rec(self, name, args, res):
        if self.fs_hook is not None and res == 'ok':
            self.fs_hook(name, args)
        self.seq += 1
        self.log.append({'seq': self.seq, 'thread': _threading.current_thread().name, 'call': name,
                         'args': _short(args), 'res': res})

    def take_fault(self):
        """True exactly once after a fault fired (claimed by the innermost API call that ends)."""
        if self.fault_pending:
            self.fault_pending = False
            return True
        return False

    # -- install / uninstall ----------------------------------------------
    def install(self, lock_factory=None):
        ip = self
        os_proxy = _OsProxy(ip)

        class GzipProxy:
            def __getattr__(self, k):
                return getattr(_gzip, k)

            def open(self, filename, mode='rb', *a, **kw):
                if 'w' in mode or 'a' in mode:
                    f = ip.call('gzip.open:w', _gzip.open, (filename, mode) + a, kw)
                    return _WriteProxy(ip, f)
                return ip.call('gzip.open:r', _gzip.open, (filename, mode) + a, kw)

        class ShutilProxy:
            def __getattr__(self, k):
                return getattr(_shutil, k)

            def rmtree(self, *a, **kw):
                return ip.call('rmtree', _shutil.rmtree, a, kw)

        class TempfileProxy:
            def __getattr__(self, k):
                return getattr(_tempfile, k)

            def mkdtemp(self, *a, **kw):
                return ip.call('mkdtemp', _tempfile.mkdtemp, a, kw)

        def open_proxy(filename, mode='r', *a, **kw):
            nm = 'open:w' if ('w' in mode or 'a' in mode or '+' in mode) else 'open:r'
            return ip.call(nm, open, (filename, mode) + a, kw)

        class ThreadingProxy:
            def __getattr__(self, k):
                return getattr(_threading, k)

            def Lock(self):
                return lock_factory()

        for mn in LIB_MODULES:
            m = sys.modules.get(mn)
            if m is None:
                continue
            saved = {}
            for attr, proxy in (('os', os_proxy), ('gzip', GzipProxy()), ('shutil', ShutilProxy()),
                                ('tempfile', TempfileProxy())):
                if hasattr(m, attr):
                    saved[attr] = getattr(m, attr)
                    setattr(m, attr, proxy)
            if mn.endswith('simple_operation_executor'):
                saved['open'] = m.__dict__.get('open', _MISSING)
                m.open = open_proxy
            if lock_factory is not None and hasattr(m, 'threading'):
                saved['threading'] = m.threading
                m.threading = ThreadingProxy()
            self._saved[mn] = saved
        self.active = True
        return self

    def uninstall(self):
        self.active = False
        for mn, saved in self._saved.items():
            m = sys.modules.get(mn)
            for attr, val in saved.items():
                if val is _MISSING:
                    try:
                        delattr(m, attr)
                    except AttributeError:
                        pass
                else:
                    setattr(m, attr, val)
        self._saved = {}

    def __enter__(self):
        return self.install()

    def __exit__(self, *a):
        self.uninstall()


_MISSING = object()
_OUT_OF_SCOPE = {'_roll_back', '_commit', 'restore_all', '__exit__', 'clean'}


def _in_commit_or_rollback():
    """C14 speaks of faults "before the commit": calls issued while the library is already
    committing, rolling back or cleaning are not fault points."""
    f = sys._getframe(2)
    while f is not None:
        if f.f_code.co_name in _OUT_OF_SCOPE and 'file_builder' in f.f_code.co_filename:
            return True
        f = f.f_back
    return False


def _short(args):
    out = []
    for a in args[:2]:
        if isinstance(a, (str, bytes)):
            out.append(_os.fsdecode(a))
        else:
            out.append(repr(a)[:40])
    return out


class _WriteProxy:
    """File object whose write() is a fault point (cache write failing after the file exists)."""

    def __init__(self, ip, f):
        self._ip = ip
        self._f = f

    def write(self, data):
        return self._ip.call('gzip.write', self._f.write, (data,), {})

    def __enter__(self):
        self._f.__enter__()
        return self

    def __exit__(self, *a):
        return self._f.__exit__(*a)

    def __getattr__(self, k):
        return getattr(self._f, k)


class _PathProxy:
    def __init__(self, ip):
        self._ip = ip

    def __getattr__(self, k):
        return getattr(_os.path, k)

    def isfile(self, p):
        return self._ip.call('isfile', _os.path.isfile, (p,), {})

    def isdir(self, p):
        return self._ip.call('isdir', _os.path.isdir, (p,), {})

    def exists(self, p):
        return self._ip.call('exists', _os.path.exists, (p,), {})

    def getsize(self, p):
        return self._ip.call('getsize', _os.path.getsize, (p,), {})

    def islink(self, p):
        return self._ip.call('islink', _os.path.islink, (p,), {})


class _OsProxy:
    def __init__(self, ip):
        self._ip = ip
        self.path = _PathProxy(ip)

    def __getattr__(self, k):
        return getattr(_os, k)

    def mkdir(self, *a, **kw):
        return self._ip.call('mkdir', _os.mkdir, a, kw)

    def makedirs(self, *a, **kw):
        return self._ip.call('makedirs', _os.makedirs, a, kw)

    def rename(self, *a, **kw):
        return self._ip.call('rename', _os.rename, a, kw)

    def replace(self, *a, **kw):
        return self._ip.call('replace', _os.replace, a, kw)

    def rmdir(self, *a, **kw):
        return self._ip.call('rmdir', _os.rmdir, a, kw)

    def remove(self, *a, **kw):
        return self._ip.call('remove', _os.remove, a, kw)

    def listdir(self, *a, **kw):
        return self._ip.call('listdir', _os.listdir, a, kw)

    def stat(self, *a, **kw):
        return self._ip.call('stat', _os.stat, a, kw)
