"""Recorder for executions of *unmodified* client code (the repository's own test suite): a pytest
plugin (`-p harness.recorder`) that wraps the public API of FileBuilder, logs the same API-level events
as harness/interp.py plus tree snapshots of the directory that holds the cache file, and writes one trace
per (test, cache file) to $FBV_RECORD_OUT (nd-JSON).  spec/FBTrace.tla then validates what the suite's own
assertions may be too weak to notice.

Projection: paths are taken relative to the directory of the cache file; the cache file's name is mapped
to "k"; content id = "h" + sha1 of the bytes; modification times are kept as opaque strings.
"""
import functools
import hashlib
import gzip
import json
import os
import stat
import threading

from . import terms

OUT = os.environ.get('FBV_RECORD_OUT')
_state = threading.local()
_traces = {}          # (test id, root) -> trace
_current_test = {'id': ''}


def _rec():
    return getattr(_state, 'rec', None)


class Trace:
    def __init__(self, tid, root, cache_name):
        self.id = tid
        self.root = root
        self.cache_name = cache_name
        self.events = []
        self.unjudged = None
        self.serials = {}
        self.exc_n = 0
        self.depth = 0
        self.committed = set()      # cache serials written by builds of this trace

    def unpath(self, filename):
        try:
            fn = os.path.abspath(os.fsdecode(filename))
        except Exception:
            self.unjudged = 'bad path'
            return ['?']
        if fn == self.root:
            return []
        if not fn.startswith(self.root + os.sep):
            self.unjudged = 'path outside the directory of the cache file: %s' % fn
            return ['?outside']
        comps = fn[len(self.root) + 1:].split(os.sep)
        if comps[0] == self.cache_name:
            comps[0] = 'k'
        elif comps[0] == 'k':
            self.unjudged = 'a path component collides with the projected cache name'
        return comps

    def node(self, fn, st):
        if stat.S_ISDIR(st.st_mode):
            return {'t': 'dir'}
        if not stat.S_ISREG(st.st_mode):
            self.unjudged = 'symbolic link or special file in the tree'
            return {'t': 'file', 'c': '?', 'sz': 0, 'mt': '?'}
        with open(fn, 'rb') as f:
            data = f.read()
        c = 'h' + hashlib.sha1(data).hexdigest()[:12]
        if os.path.basename(fn) == self.cache_name and os.path.dirname(fn) == self.root:
            try:
                dec = gzip.decompress(data).decode()
                if dec not in self.serials:
                    self.serials[dec] = len(self.serials) + 1
                c = 'K%d' % self.serials[dec]
            except Exception:
                c = 'X' + c
        return {'t': 'file', 'c': c, 'sz': st.st_size, 'mt': 'm%d' % st.st_mtime_ns}

    def snapshot(self):
        out = [{'p': [], 't': 'dir'}]
        for d, subdirs, subfiles in os.walk(self.root):
            for name in sorted(subdirs + subfiles):
                fn = os.path.join(d, name)
                st = os.lstat(fn)
                if stat.S_ISLNK(st.st_mode):
                    self.unjudged = 'symbolic link in the tree'
                    continue
                n = self.node(fn, st)
                n['p'] = self.unpath(fn)
                out.append(n)
        out.sort(key=lambda e: e['p'])
        return out

    def cser(self, disk):
        for e in disk:
            if e['p'] == ['k']:
                if e['t'] == 'file' and e['c'].startswith('K'):
                    return int(e['c'][1:])
                return -1 if e['t'] == 'file' else -2
        return 0

    def ev(self, **kw):
        self.events.append(kw)
        return kw


def _term(v):
    try:
        return terms.to_term(v)
    except Exception:
        return {'k': 'other', 'r': type(v).__name__}


def _is_json(v):
    from file_builder.json_util import JsonUtil
    try:
        JsonUtil.sanitize(v)
        return True
    except Exception:
        return False


def install():
    import file_builder.file_builder as fbm
    from file_builder import FileComparison
    FB = fbm.FileBuilder
    if getattr(FB, '_fbv_recorded', False):
        return
    FB._fbv_recorded = True
    orig_bv = FB.__dict__['build_versioned'].__func__
    orig_clean = FB.__dict__['clean'].__func__
    orig_bfc = FB.build_file_with_comparison
    orig_sb = FB.subbuild

    def trace_for(cache_filename):
        try:
            cf = os.path.abspath(os.fsdecode(cache_filename))
        except Exception:
            return None
        root = os.path.dirname(cf)
        key = (_current_test['id'], cf)
        if key not in _traces:
            _traces[key] = Trace('%s#%d' % (_current_test['id'], len(_traces)), root, os.path.basename(cf))
        return _traces[key]

    def build_versioned(cache_filename, build_name, versions, func, *args, **kwargs):
        t = trace_for(cache_filename)
        if t is None or _rec() is not None:
            return orig_bv(cache_filename, build_name, versions, func, *args, **kwargs)
        bad = (not isinstance(build_name, str) or not callable(func) or not isinstance(versions, dict)
               or not _is_json(versions))
        disk = t.snapshot()
        cs = t.cser(disk)
        if cs > 0 and cs not in t.committed:
            t.unjudged = t.unjudged or 'cache file produced elsewhere (moved / copied into place by the test)'
        t.ev(ev='build', name=build_name if isinstance(build_name, str) else '?', bad=bool(bad),
             vers=_term(versions) if isinstance(versions, dict) and _is_json(versions) else {'k': 'dict', 'kv': []},
             disk=disk, cser=t.cser(disk))
        state = {'inv': False, 'exc': None}

        def rootfn(builder, *a, **k):
            state['inv'] = True
            t.ev(ev='root_begin', sent='', recv='')
            try:
                v = func(builder, *a, **k)
            except BaseException as x:
                state['exc'] = x
                t.exc_n += 1
                t.ev(ev='fn_end', out='raise', v={'k': 'none'}, x=t.exc_n, prop=False, err=x.__class__.__name__)
                raise
            t.ev(ev='fn_end', out='return', v=_term(v), x=0, prop=False, err='')
            return v
        _state.rec = t
        try:
            try:
                v = orig_bv(cache_filename, build_name, versions, rootfn if callable(func) else func, *args, **kwargs)
                out = {'out': 'returned', 'v': _term(v), 'err': '', 'same': False}
                return v
            except Exception as x:
                out = {'out': 'raised', 'v': {'k': 'none'}, 'err': x.__class__.__name__,
                       'same': state['exc'] is not None and x is state['exc']}
                raise
            finally:
                _state.rec = None
                disk2 = t.snapshot()
                if out['out'] == 'returned' and t.cser(disk2) > 0:
                    t.committed.add(t.cser(disk2))
                t.ev(ev='build_end', inv=state['inv'], disk=disk2, cser=t.cser(disk2), tmp=True, fault=False, **out)
        finally:
            _state.rec = None

    def clean(cache_filename, build_name):
        t = trace_for(cache_filename)
        if t is None or _rec() is not None:
            return orig_clean(cache_filename, build_name)
        bad = build_name is not None and not isinstance(build_name, str)
        disk = t.snapshot()
        try:
            r = orig_clean(cache_filename, build_name)
            out, err = 'ok', ''
            return r
        except Exception as x:
            out, err = 'raised', x.__class__.__name__
            raise
        finally:
            after = t.snapshot()
            t.ev(ev='clean', name=build_name if isinstance(build_name, str) else '?', noname=build_name is None,
                 bad=bool(bad), disk=disk, cser=t.cser(disk), out=out, err=err, after=after, tmp=True, fault=False)

    def complex_call(is_bf, self, target, file_comparison, func_name, func, args, kwargs):
        t = _rec()
        if t is None:
            if is_bf:
                return orig_bfc(self, target, file_comparison, func_name, func, *args, **kwargs)
            return orig_sb(self, func_name, func, *args, **kwargs)
        valid = isinstance(func_name, str) and callable(func) and _is_json(list(args)) and _is_json(dict(kwargs)) \
            and (not is_bf or isinstance(file_comparison, FileComparison))
        if not valid or getattr(self, '_fbv_finished_probe', False):
            t.unjudged = t.unjudged or 'ill-typed build_file/subbuild call (TypeError tests)'
        state = {'inv': False, 'exc': None}
        if is_bf:
            p = t.unpath(target) if isinstance(target, (str, bytes, os.PathLike)) else ['?']
            t.ev(ev='bf_begin', p=p, f=func_name if isinstance(func_name, str) else '?', args=_term(list(args)),
                 kw=_term(dict(kwargs)), cmp=file_comparison.name if isinstance(file_comparison, FileComparison) else '?')
        else:
            p = None
            t.ev(ev='sb_begin', f=func_name if isinstance(func_name, str) else '?', args=_term(list(args)),
                 kw=_term(dict(kwargs)))

        def callee(b, *a, **k):
            state['inv'] = True
            if is_bf:
                path_recv, rest = a[0], a[1:]
                e = t.ev(ev='invoke', recv=_term(list(rest)), recvkw=_term(dict(k)),
                         path_ok=(isinstance(path_recv, str) and t.unpath(path_recv) == p
                                  and path_recv == os.path.abspath(path_recv)))
            else:
                t.ev(ev='invoke', recv=_term(list(a)), recvkw=_term(dict(k)))
            try:
                v = func(b, *a, **k)
            except BaseException as x:
                state['exc'] = x
                _log_write(t, is_bf, a)
                t.exc_n += 1
                t.ev(ev='fn_end', out='raise', v={'k': 'none'}, x=t.exc_n, prop=False, err=x.__class__.__name__)
                raise
            _log_write(t, is_bf, a)
            t.ev(ev='fn_end', out='return', v=_term(v), x=0, prop=False, err='')
            return v
        endname = 'bf_end' if is_bf else 'sb_end'
        try:
            if is_bf:
                ret = orig_bfc(self, target, file_comparison, func_name, callee if callable(func) else func, *args, **kwargs)
            else:
                ret = orig_sb(self, func_name, callee if callable(func) else func, *args, **kwargs)
        except Exception as x:
            if isinstance(x, RuntimeError) and 'already finished' in str(x) and not state['inv']:
                # a call on a builder whose function has ended (C17): not a call of the running activation
                for i in range(len(t.events) - 1, -1, -1):
                    if t.events[i]['ev'] in ('bf_begin', 'sb_begin'):
                        del t.events[i]
                        break
                t.ev(ev='stale', which='?', method='build_file' if is_bf else 'subbuild', p=p or [],
                     res={'ok': False, 'err': 'RuntimeError'}, called=0)
                raise
            e = t.ev(ev=endname, inv=state['inv'], out='raised', err=x.__class__.__name__,
                     same=state['exc'] is not None and x is state['exc'], ret={'k': 'none'}, fault=False, base=False)
            if is_bf:
                e['real'] = _real(target)
            raise
        e = t.ev(ev=endname, inv=state['inv'], out='ok', err='', same=False, ret=_term(ret), fault=False, base=False)
        if is_bf:
            e['real'] = _real(target)
        return ret

    def _log_write(t, is_bf, a):
        if not is_bf:
            return
        try:
            fn = a[0]
            st = os.lstat(fn)
            if stat.S_ISREG(st.st_mode):
                n = t.node(fn, st)
                t.ev(ev='write', c=n['c'], sz=n['sz'], mt=n['mt'])
        except OSError:
            pass

    def _real(target):
        try:
            fn = os.path.abspath(os.fsdecode(target))
        except Exception:
            return 'none'
        if os.path.isdir(fn):
            return 'dir'
        if os.path.isfile(fn):
            return 'file'
        return 'other' if os.path.lexists(fn) else 'none'

    def bfc(self, filename, file_comparison, func_name, func, *args, **kwargs):
        return complex_call(True, self, filename, file_comparison, func_name, func, args, kwargs)

    def sb(self, func_name, func, *args, **kwargs):
        return complex_call(False, self, None, None, func_name, func, args, kwargs)

    def wrap_query(kind, orig):
        @functools.wraps(orig)
        def q(self, filename, *a, **k):
            t = _rec()
            if t is None:
                return orig(self, filename, *a, **k)
            e = {'ev': 'q', 'kind': 'read' if kind in ('declare_read', 'read_text', 'read_binary') else kind,
                 'p': t.unpath(filename) if isinstance(filename, (str, bytes, os.PathLike)) else ['?'],
                 'cmp': 'METADATA', 'td': True, 'how': kind}
            if e['kind'] == 'read':
                fc = a[0] if a else k.get('file_comparison', FileComparison.METADATA)
                e['cmp'] = fc.name if isinstance(fc, FileComparison) else '?'
                if not isinstance(fc, FileComparison):
                    t.unjudged = t.unjudged or 'ill-typed query (TypeError tests)'
            if kind == 'walk':
                td = a[0] if a else k.get('top_down', True)
                e['td'] = bool(td)
                if not isinstance(td, bool):
                    t.unjudged = t.unjudged or 'ill-typed query (TypeError tests)'
            if not isinstance(filename, (str, bytes, os.PathLike)):
                t.unjudged = t.unjudged or 'ill-typed query (TypeError tests)'
            try:
                r = orig(self, filename, *a, **k)
            except Exception as x:
                if isinstance(x, RuntimeError) and 'already finished' in str(x):
                    t.ev(ev='stale', which='?', method=kind, p=e['p'], res={'ok': False, 'err': 'RuntimeError'}, called=0)
                    raise
                e['res'] = {'ok': False, 'err': x.__class__.__name__}
                t.events.append(e)
                raise
            if kind in ('exists', 'is_file', 'is_dir'):
                v = bool(r)
            elif kind == 'list_dir':
                v = sorted(r)
            elif kind == 'walk':
                v = [{'d': t.unpath(d), 'sd': sorted(sd), 'sf': sorted(sf)} for d, sd, sf in r]
            elif kind == 'get_size':
                v = r if isinstance(r, int) and r < 2 ** 31 else -3
            else:
                v = '-'
            e['res'] = {'ok': True, 'v': v}
            t.events.append(e)
            return r
        return q

    FB.build_versioned = staticmethod(build_versioned)
    FB.clean = staticmethod(clean)
    FB.build_file_with_comparison = bfc
    FB.subbuild = sb
    for kind in ('exists', 'is_file', 'is_dir', 'list_dir', 'walk', 'get_size', 'declare_read', 'read_text',
                 'read_binary'):
        setattr(FB, kind, wrap_query(kind, getattr(FB, kind)))


def dump():
    if not OUT:
        return
    with open(OUT, 'w') as f:
        for (tid, cf), t in _traces.items():
            f.write(json.dumps({'id': t.id, 'cache': ['k'], 'events': t.events, 'unjudged': t.unjudged}) + '\n')


# ---- pytest plugin hooks -------------------------------------------------------------------------
def pytest_configure(config):
    install()


def pytest_runtest_setup(item):
    _current_test['id'] = item.nodeid.split('::', 1)[-1].replace('::', '.')


def pytest_sessionfinish(session, exitstatus):
    dump()
