"""check <Cxx> [--tier quick|thorough] [--replay file]   (see DESIGN.md 4)"""
import argparse
import glob
import json
import os
import sys
import time

VERIF = os.path.dirname(os.path.dirname(os.path.abspath(__file__)))


def load_regress():
    out = []
    for fn in sorted(glob.glob(os.path.join(VERIF, 'regress', '*.json'))):
        with open(fn) as f:
            out.append(json.load(f))
    return out


def check_import():
    try:
        import file_builder  # noqa: F401
        return None
    except Exception as x:     # pragma: no cover
        return repr(x)


def main(argv=None):
    ap = argparse.ArgumentParser()
    ap.add_argument('prop')
    ap.add_argument('--tier', default=os.environ.get('VERIF_TIER', 'quick'))
    ap.add_argument('--replay')
    ap.add_argument('--scale', type=float, default=1.0)
    a = ap.parse_args(argv)
    seed = int(os.environ.get('VERIF_SEED', '0'))
    tier = a.tier if a.tier in ('quick', 'thorough') else 'quick'
    sys.path.insert(0, VERIF)
    os.environ.setdefault('FBV_REPO', '/repo')
    if os.environ['FBV_REPO'] not in sys.path:
        sys.path.insert(0, os.environ['FBV_REPO'])
    err = check_import()
    if err:
        print('MACHINERY-FAILURE cannot import file_builder from %s: %s' % (os.environ['FBV_REPO'], err))
        return 2
    from harness import special
    if a.prop == 'selftest':
        return special.selftest(with_mutants=not os.environ.get('FBV_SELFTEST_FAST'))
    if a.replay:
        return special.replay(a.prop, a.replay)
    from harness import props
    if a.prop in special.SPECIAL:
        return special.SPECIAL[a.prop](tier, seed, a.scale)
    if a.prop not in props.PROPS:
        print('unknown property', a.prop)
        return 2
    return special.run_property(a.prop, tier, seed, a.scale)


if __name__ == '__main__':
    sys.exit(main())
