"""C18 / C07 binding: evaluate JsonUtil.sanitize / is_equal / to_hashable of the real code on a
pool of concrete values (and all pairs), let TLC (spec/JsonTrace.tla) judge every result."""
import collections
import enum
import json
import math
import os
import random
import re
import shutil
import subprocess
import tempfile

from . import terms, tlc
from .sandbox import scratch_root

JV_RE = re.compile(r'<<"JVERDICT", "(header|row)", "([^"]*)", (\d+), (\d+)>>')


class Color(enum.IntEnum):
    RED = 1


class S(str):
    pass


class Shade(str, enum.Enum):      # str() of a member is 'Shade.DARK', json.dumps gives "dark" (D36)
    DARK = 'dark'


class S2(str):
    def __str__(self):
        return '<S2>'
    __repr__ = __str__


class I2(int):                    # json serialises the stored number, not what __int__ says (D40)
    def __int__(self):
        return 7


class F2(float):
    def __float__(self):
        return 0.5


class L(list):
    pass


class F(float):
    pass


P2 = collections.namedtuple('P2', 'x y')


def base_pool():
    atoms = [None, False, True, 0, 1, 1.0, -0.0, '', '1', 'a', 2 ** 63, math.inf, -math.inf, 2 ** 100, 1e22, 0.1,
             'true', 'null', 'café', -1, 2, 2.0]
    small = [None, True, 1, 1.0, '1', False, 0]
    keys = ['1', 'a', 1, 1.0, True, None, 2.5, 'true', 'null', 0, False, '']
    # integers that no double tells apart (neighbours beyond 2**53 and around 2**63), and their float images
    atoms += [2 ** 53, 2 ** 53 + 1, float(2 ** 53), 2 ** 63 - 1, 2 ** 63 + 1, float(2 ** 63),
              1700000000000000001, 1700000000000000002, -(2 ** 53) - 1, -(2 ** 53), 10 ** 400]
    out = list(atoms)
    # one-entry objects / pairs built from the words a tagged hashable form might use
    for w in ('bool', 'int', 'float', 'str', 'list', 'dict', 'tuple', 'none', 'null', 'true', 'false'):
        for val in (0, 1, True, False, None, 1.0):
            out.append({w: val})
        out.append([w, True])
        out.append([w, 1])
        out.append((w, False))
    out += [[2 ** 53 + 1], [2 ** 53], {'n': 2 ** 63 + 1}, {'n': 2 ** 63}, {2 ** 53 + 1: 'k'}, {2 ** 53: 'k'}]
    for a in small:
        out.append([a])
        out.append((a,))
        for b in small[:5]:
            out.append([a, b])
            out.append((a, b))
    out += [[], (), {}]
    for k in keys:
        for v in small[:5]:
            out.append({k: v})
    for k1 in ['1', 1, True, 'a']:
        for k2 in ['1', 'a', 1.0, 'b']:
            if k1 is k2:
                continue
            for v1 in (1, '1', None):
                for v2 in (1, 1.0, None):
                    try:
                        d = {}
                        d[k1] = v1
                        d[k2] = v2
                    except TypeError:
                        continue
                    out.append(d)
                    out.append(dict(reversed(list(d.items()))))
    mid = [[], (1,), [1.0], {}, {'a': 1}, {'a': 1.0}, [True], {'a': None}, {'b': None}, [None], [[]], {'a': {}}]
    for x in mid:
        for y in mid:
            out.append([x, y])
            out.append({'a': x, 'b': y})
            out.append({'b': y, 'a': x})
    out += [{'a': [1, (2, {'b': (3,)})]}, [[[[[[1]]]]]], {'x': {'y': {'z': [1, {'w': None}]}}}]
    # values that mention one and the same container more than once
    sh_l, sh_d, sh_e = [1], {'k': 1}, []
    out += [[sh_l, sh_l], {'a': sh_l, 'b': sh_l}, [sh_d, sh_d], (sh_l, [sh_l]), [[sh_e] * 3], {'a': sh_d, 'b': [sh_d]},
            [sh_e, sh_e], dict.fromkeys(['x', 'y'], sh_e)]
    # instances of subclasses
    out += [Color.RED, S('a'), S('1'), L([1, (2,)]), F(1.0), P2(1, [2]), collections.OrderedDict([('b', 1), ('a', 2)]),
            {S('k'): 1}, {Color.RED: 'enum key'}, collections.defaultdict(list, {'a': [1]})]
    # ... whose str() differs from their contents
    out += [Shade.DARK, [Shade.DARK], {Shade.DARK: 1}, {'k': Shade.DARK}, S2('a'), {S2('k'): S2('v')}, (S2('1'), 1)]
    out += [I2(1234), [I2(3)], F2(12.5), {'k': F2(2.0)}]
    # a high and a low surrogate as two code points: the round trip joins them (D41); other surrogates stay
    out += ['\ud83d\ude00', 'x\ud83d\ude00y', ['\ud83d\ude00'], {'\ud83d\ude00': 1}, {'k': '\ud83d\ude00'}, '\ude00\ud83d',
            '\ud800', '\U0001f600', '\U0001f600\ud83d', S('\ud83d\ude00')]
    # the same pair as a dict *key*, next to the joined spelling of that key (seed C16k: keys that skip the joining
    # are told apart from the joined key by is_equal / to_hashable although their terms are one JSON string)
    out += [{'\U0001f600': 1}, {'k': {'\ud83d\ude00': 2}}, {'k': {'\U0001f600': 2}}, [{'x\ud83d\ude00': None}],
            [{'x\U0001f600': None}], {S('\ud83d\ude00'): 1}]
    return out


NON_JSON = [set(), b'x', object(), [set()], {'a': b'x'}, {(1, 2): 1}, 1j, {frozenset(): 1}, [1, [2, [object()]]],
            bytearray(b'x'), range(3), {'a': {'b': {1, 2}}}, (1, {2}), Ellipsis, {b'k': 1}]
# look-alikes of the JSON container / scalar types that json.dumps rejects: mappings that are not dicts, sequences
# that are not lists or tuples, numbers that are neither int nor float; also empty (falsy) ones and nested positions
import array as _array        # noqa: E402
import decimal as _decimal    # noqa: E402
import fractions as _fractions    # noqa: E402
import types as _types        # noqa: E402
NON_JSON += [_types.MappingProxyType({'a': 1}), collections.UserDict({'a': 1}), collections.ChainMap({'a': 1}),
             collections.UserList([1]), collections.UserString('a'), collections.deque([1]), _array.array('i', [1]),
             frozenset(), memoryview(b'x'), _decimal.Decimal(1), _fractions.Fraction(1, 2), b'', collections.UserDict(),
             _types.MappingProxyType({}), [_types.MappingProxyType({'a': 1})], {'a': collections.UserDict({'b': 1})},
             (collections.ChainMap({'a': 1}),), {'k': [collections.UserList()]}, iter([1]), (x for x in [1]), len, int]


def random_values(seed, n):
    rnd = random.Random(seed)
    atoms = [None, False, True, 0, 1, -1, 2, 1.0, 2.0, -0.0, 0.5, 1e22, 2 ** 63, '', '1', 'a', 'b', 'true', math.inf]

    def gen(d):
        r = rnd.random()
        if d <= 0 or r < 0.35:
            return rnd.choice(atoms)
        if r < 0.6:
            return [gen(d - 1) for _ in range(rnd.randrange(0, 4))]
        if r < 0.7:
            return tuple(gen(d - 1) for _ in range(rnd.randrange(0, 3)))
        d2 = {}
        for _ in range(rnd.randrange(0, 4)):
            k = rnd.choice(['a', 'b', '1', 1, 1.0, True, None, 2, '2', 0.5, 'c'])
            d2[k] = gen(d - 1)
        return d2
    return [gen(rnd.randrange(1, 5)) for _ in range(n)]


def is_tree(v, seen=None):
    seen = set() if seen is None else seen
    if isinstance(v, (list, dict)):
        if id(v) in seen:
            return False
        seen.add(id(v))
    if isinstance(v, (list, tuple)):
        return all(is_tree(x, seen) for x in v)
    if isinstance(v, dict):
        return all(is_tree(x, seen) for x in v.values())
    return True


def mutable_ids(v, acc=None):
    acc = set() if acc is None else acc
    if isinstance(v, (list, dict)):
        acc.add(id(v))
    if isinstance(v, (list, tuple)):
        for x in v:
            mutable_ids(x, acc)
    elif isinstance(v, dict):
        for x in v.values():
            mutable_ids(x, acc)
    return acc


def evaluate(values, JsonUtil):
    """Run the code under test.  Returns (header, rows) for JsonTrace."""
    OTHER = {'k': 'other', 'r': '-'}
    res = []
    sans = []
    for v in values:
        r = {'err': '', 'san': OTHER, 'rt': OTHER, 'san2': OTHER, 'disjoint': True, 'selfeq': True}
        try:
            s = JsonUtil.sanitize(v)
        except Exception as x:
            r['err'] = x.__class__.__name__
            s = None
        if r['err'] == '':
            r['san'] = terms.to_term(s)
            try:
                r['san2'] = terms.to_term(JsonUtil.sanitize(s))
            except Exception as x:
                r['san2'] = {'k': 'other', 'r': x.__class__.__name__}
            # no structure shared with the input - and none shared *within* the result: like the value a JSON
            # round trip produces, it is a tree (an input that mentions one list twice yields two lists)
            r['disjoint'] = not (mutable_ids(s) & mutable_ids(v)) and is_tree(s)
            try:
                r['selfeq'] = bool(JsonUtil.is_equal(s, s))
            except Exception:
                r['selfeq'] = False
        try:
            r['rt'] = terms.to_term(json.loads(json.dumps(v)))
        except Exception as x:
            r['rt'] = {'k': 'other', 'r': x.__class__.__name__}
        res.append(r)
        sans.append(s)
    return res, sans


def rows_for(sans, nj, JsonUtil):
    hs = []
    for s in sans[:nj]:
        try:
            hs.append(JsonUtil.to_hashable(s))
        except Exception as x:
            hs.append(('ERR', repr(x)))
    rows = []
    for i in range(nj):
        eq, eqrev, heq = [], [], []
        for j in range(nj):
            try:
                e1 = bool(JsonUtil.is_equal(sans[i], sans[j]))
            except Exception:
                e1 = 'ERR'
            try:
                e2 = bool(JsonUtil.is_equal(sans[j], sans[i]))
            except Exception:
                e2 = 'ERR2'
            try:
                h = bool(hs[i] == hs[j]) and hash(hs[i]) == hash(hs[j])
            except Exception:
                h = 'ERR3'
            eq.append(e1)
            eqrev.append(e2)
            heq.append(h)
        rows.append({'i': i + 1, 'eq': eq, 'eqrev': eqrev, 'heq': heq})
    return rows


def run(values_json, values_nonjson, JsonUtil, jobs=16, timeout=900):
    """Returns (verdicts, stats).  verdicts: list of (kind, clause, index)."""
    # JSON values first
    vals = list(values_json) + list(values_nonjson)
    tvals = [terms.to_term(v) for v in vals]
    res, sans = evaluate(vals, JsonUtil)
    # a value the code accepted although the spec says non-JSON (or vice versa) is judged by the header clause
    nj = len(values_json)
    for k in range(nj):
        if res[k]['err']:
            sans[k] = None
    rows = rows_for([s for s in sans], nj, JsonUtil) if all(res[k]['err'] == '' for k in range(nj)) else []
    hdr = {'vals': tvals, 'res': res, 'nj': nj}
    chunks = [rows[i::jobs] for i in range(jobs)] if rows else []
    chunks = [c for c in chunks if c] or [[]]
    work = tempfile.mkdtemp(prefix='fbv_json_', dir=scratch_root())
    verdicts = []
    stats = {'states': 0, 'distinct': 0}
    try:
        from concurrent.futures import ThreadPoolExecutor

        def one(ix_chunk):
            ix, chunk = ix_chunk
            tf = os.path.join(work, 'j%d.ndjson' % ix)
            with open(tf, 'w') as f:
                f.write(json.dumps(hdr) + '\n')
                for r in chunk:
                    f.write(json.dumps(r) + '\n')
            cmd = tlc.tlc_cmd('JsonTrace.cfg', 'JsonTrace.tla', 1, metadir=os.path.join(work, 'm%d' % ix), short=True)
            p = subprocess.run(cmd, cwd=tlc.SPEC_DIR, env=dict(os.environ, TRACE_FILE=tf), stdout=subprocess.PIPE,
                               stderr=subprocess.STDOUT, text=True, timeout=timeout)
            return p.stdout, len(chunk)
        with ThreadPoolExecutor(max_workers=jobs) as ex:
            for out, n in ex.map(one, list(enumerate(chunks))):
                got = JV_RE.findall(out)
                if len(got) != n + 1 or 'Model checking completed' not in out:
                    raise tlc.TlcError('JsonTrace: %d verdicts for %d records\n%s' % (len(got), n + 1, out[-3000:]))
                st = tlc.parse_stats(out)
                stats['states'] += st['states']
                stats['distinct'] += st['distinct']
                for kind, clause, idx, _n in got:
                    verdicts.append((kind, clause, int(idx)))
    finally:
        shutil.rmtree(work, ignore_errors=True)
    return verdicts, stats, vals
