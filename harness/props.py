"""Per-property configuration: scenario classes, owned clauses (DESIGN.md 4.1),
non-triviality rules, model-checking jobs."""

# clause -> the property whose statement it renders (primary owner; informational)
CLAUSE_OWNER = {
    'AnswerMatches': 'C04',
    'ReturnMatches': 'C01', 'FinalTreeMatches': 'C01', 'ReuseOnlyIfValid': 'C01',
    'ExceptionClassMatches': 'C01', 'NoSpuriousException': 'C01', 'OutcomeMatches': 'C10',
    'PersistedEqualsReturned': 'C16', 'ExceptionPropagates': 'C02', 'CacheWritten': 'C16',
    'ExcIdentity': 'C02', 'RollbackRestores': 'C02', 'TempDirRemoved': 'C15',
    'ForeignUntouched': 'C03',
    'ExecOnlyIfJustified': 'C05', 'OutputsNotRewritten': 'C05',
    'ArgsRoundTripped': 'C07', 'PathNormalised': 'C07', 'RootArgsPassed': 'C01',
    'DuplicateRejected': 'C08', 'SetupFailExpected': 'C10', 'SetupErrClass': 'C10',
    'TargetFileAfterOk': 'C10', 'TargetAbsentAfterFail': 'C10',
    'CleanExact': 'C12', 'CleanNoCacheNoEffect': 'C12',
    'RefusalNoEffect': 'C15', 'RefusalExpected': 'C15', 'RefusedCallRanUserCode': 'C15',
}

ALL = set(CLAUSE_OWNER)

C01_CLAUSES = {'ReturnMatches', 'FinalTreeMatches', 'ReuseOnlyIfValid', 'ExceptionClassMatches',
               'NoSpuriousException', 'PersistedEqualsReturned', 'CacheWritten', 'OutcomeMatches',
               'SetupFailExpected', 'SetupErrClass', 'ExceptionPropagates', 'AnswerMatches',
               'DuplicateRejected', 'CleanExact', 'RootArgsPassed'}


def nt_any(st, sc):
    return st['commit'] + st['rollback'] > 0


# design-level TLC jobs (spec/FBRefMC.tla): quick = exhaustive small configurations, thorough adds the
# nested configuration (exhaustive, ~14 min) and the larger one under a time bound
MC_THOROUGH = [('MC_nest.cfg', 1500), ('MC_tiny.cfg', 900)]

QUERY_FAULT_CALLS = ['listdir', 'stat', 'getsize', 'open:r']

PROPS = {
    'C01': {
        'samples': (300, 3000),
        'repotests': True,
        'mc_quick': ['MC_quick.cfg'], 'mc_thorough': MC_THOROUGH,
        'title': 'Cache transparency',
        'units': [('swap', 1200, 15000), ('subcache', 600, 8000), ('subcacheq', 300, 4000), ('general', 1500, 30000), ('nested', 1500, 30000), ('selfnest', 400, 6000), ('keys', 500, 6000), ('rebuild', 500, 10000), ('foreign', 500, 8000),
                  ('clean', 300, 4000), ('linkstale', 60, 600), ('regress', 0, 0)],
        # a stale answer anywhere (C01: "always shows up in the result exactly as from scratch")
        'owned': C01_CLAUSES,
        'nontrivial': lambda st, sc: st['reuse'] > 0 and st['invfound'] > 0,
        'rule': 'scenario = seeded random history (external mutations / builds / failing builds / cleans) '
                'with hash-oracle programs; distinct = distinct event traces; non-trivial = the trace '
                'contains at least one reuse of a recorded subtree AND at least one re-execution of a call '
                'that had a record (so both directions of the reuse rule were exercised)',
    },
    'C02': {
        'repotests': True,
        'mc_quick': ['MC_quick_clean.cfg', ('Backup_q.cfg', 300, 'FBBackup.tla'), ('Backup_twice_first.cfg', 300, 'FBBackup.tla')],
        'mc_thorough': MC_THOROUGH + [('Backup.cfg', 900, 'FBBackup.tla')],
        'title': 'Rollback',
        'units': [('swap', 1500, 20000), ('subcache', 500, 6000), ('subcacheq', 300, 4000), ('crash', 2000, 40000), ('forcrash', 800, 15000), ('foreign', 400, 6000), ('selfnest', 600, 8000), ('bulk', 3, 20),
                  ('regress', 0, 0)],
        # "... or while the cache file is being written": an OSError injected into the cache open / write of a
        # build whose function returned normally, on histories with and without a cache directory of its own
        'backupbind': (16700, 40000),     # files moved aside and restored through the real FileBackups (FBBackup!Name)
        'fault_units': (240, 3000, 0, 0), 'fault_profile': ['subcache', 'crash'],
        'fault_calls': ['gzip.open:w', 'gzip.write'],
        # a library error that the program catches earlier in a build that then fails (any faultable call)
        'fault_extra': [('faultretry', 60, 800, 0, 0, None)],
        # threads whose calls depend on each other (a directory of the previous build becomes an output file while
        # an output below it is rebuilt): only the rollback is judged (D32, D33)
        'thread_extra': [('threadsswap', 10, 150, 0, 0, 4, 12, 2, 20)],
        'owned': {'ExcIdentity', 'RollbackRestores', 'ExceptionPropagates', 'ExceptionClassMatches',
                  'TempDirRemoved', 'ForeignUntouched', 'CacheReplacedOnlyOnSuccess', 'FaultSurfaces',
                  'SlotName', 'SlotNamesDistinct', 'SlotSequence', 'RestoreAll', 'BackupMoves'},
        'after_rollback_all': True,      # "a subsequent build behaves exactly as if the failed build had never run"
        'nontrivial': lambda st, sc: st['rollback'] > 0 and st['commit'] > 0,
        'rule': 'crash point = every position of the root function (and uncaught nested failures) x history '
                'prefix; non-trivial = at least one rolled-back build and one committed build in the trace',
    },
    'C03': {
        'repotests': True,
        'fslog': True,
        'mc_quick': ['MC_quick_clean.cfg'], 'mc_thorough': [('MC_tiny.cfg', 600)],
        'title': 'Foreign files',
        # threads that overwrite foreign files / old outputs and a rollback, with a yield point at every executed line of
        # the backup store, the directory bookkeeping and the cache tables (all single preemptions)
        'thread_units': (6, 60, 0, 0, 0, 0), 'thread_profile': 'threadsfl',
        'backupbind': (16700, 40000),     # what is moved aside - foreign files included - comes back: FBBackup!Name binding
        'units': [('swap', 1200, 15000), ('subcache', 400, 5000), ('foreign', 1500, 30000), ('forcrash', 1500, 30000), ('clean', 400, 8000),
                  ('crash', 300, 5000), ('selfnest', 800, 10000)],
        'owned': {'ForeignUntouched', 'SlotName', 'SlotNamesDistinct', 'SlotSequence', 'RestoreAll', 'BackupMoves'},
        'nontrivial': lambda st, sc: st['commit'] + st['rollback'] + st['clean'] > 1,
        'rule': 'foreign files planted inside created directories, at former output positions and next to '
                'the cache file across commits, rollbacks and cleans; non-trivial = at least two '
                'build/clean calls judged against a tree that contains foreign files',
    },
    'C04': {
        'repotests': True,
        'mc_quick': ['MC_quick.cfg'], 'mc_thorough': MC_THOROUGH + [('MC_self.cfg', 900)],
        'sim': [('MC_sim.cfg', 100, 1500, 60), ('MC_sim_self.cfg', 30, 500, 60)],
        'title': 'Virtual view',
        'fault_extra': [('probe', 30, 500, 6, 0, QUERY_FAULT_CALLS, 'query'), ('swap', 60, 800, 6, 0, QUERY_FAULT_CALLS, 'query')],
        # a query that races a failing build_file on the same path: the racing answer is not judged, the view after the
        # threads are joined is (D43); single preemptions + up to 600 (query, builder, query) triples per history
        'thread_extra': [('threadsqdep', 8, 100, 2, 0, 0, 0, 0, 0)],
        'units': [('swap', 800, 10000), ('forcrash', 600, 8000), ('probe', 700, 12000), ('general', 500, 8000), ('nested', 1000, 15000), ('bfcontract', 300, 5000),
                  ('selfnest', 500, 6000), ('foreign', 1500, 15000), ('subcacheq', 500, 8000), ('regress', 0, 0)],
        'owned': {'AnswerMatches'},
        'nontrivial': lambda st, sc: st['q'] >= 10,
        'rule': 'every query kind on every universe path ("probe-all") at many points of random programs; '
                'non-trivial = at least 10 judged answers in the trace',
    },
    'C05': {
        'samples': (300, 3000),
        'repotests': True,
        'mc_quick': ['MC_quick.cfg'], 'mc_thorough': MC_THOROUGH,
        'title': 'Cache effectiveness',
        'units': [('rebuild', 2000, 40000), ('nested', 2500, 40000), ('rebuildclean', 800, 10000), ('general', 700, 10000),
                  ('cmp', 300, 6000), ('subcacheq', 500, 8000), ('regress', 0, 0)],
        'owned': {'ExecOnlyIfJustified', 'OutputsNotRewritten', 'PersistedEqualsReturned'},
        'nontrivial': lambda st, sc: st['reuse'] > 0,
        'rule': 'committed build followed by unchanged rebuilds / rebuilds after single mutations; '
                'non-trivial = at least one call for which the spec computed MustHit and the code reused it',
    },
    'C06': {
        'mc_quick': ['MC_quick_ver.cfg'], 'mc_thorough': [('MC_tiny.cfg', 900)],
        'title': 'Versions',
        'units': [('versions', 2500, 40000)],
        'owned': {'ExecOnlyIfJustified', 'ReuseOnlyIfValid', 'ReturnMatches', 'PersistedEqualsReturned',
                  'FinalTreeMatches'},
        'nontrivial': lambda st, sc: st['reuse'] > 0 and st['invfound'] > 0,
        'rule': 'stable programs rebuilt under changing version maps (JSON-equal and unequal variants); '
                'non-trivial = the trace has both a reuse and a re-execution of a recorded call',
    },
    'C07': {
        'mc_quick': [], 'sim': None, 'json_mc': True,
        'title': 'Cache identity',
        'units': [('keys', 6000, 80000), ('dup', 500, 8000)],
        'owned': {'DuplicateRejected', 'SetupFailExpected', 'ExecOnlyIfJustified', 'ReuseOnlyIfValid',
                  'ArgsRoundTripped', 'PathNormalised', 'NoSpuriousException', 'PersistedEqualsReturned',
                  'SetupErrClass', 'ReturnMatches', 'FinalTreeMatches', 'OutputsNotRewritten'},
        'nontrivial': lambda st, sc: st['reuse'] + st['sfail'] > 0 and st['inv'] > 1,
        'rule': 'pairs of build_file / subbuild calls whose function name, positional / keyword arguments (drawn from '
                'a pool of JSON-colliding structures: tuple/list, 1/1.0/True, key order, non-string keys, extra keys, '
                'nesting) and path spelling (bytes, PathLike, relative, doubled separator, x/../, ./) are equal or not; '
                'second call in the same build (duplicate <=> same key) or in the next build (hit <=> same key); the '
                'spec decides with JsonVal!Eq / Canon; non-trivial = both a hit-or-duplicate and an execution occur',
    },
    'C08': {
        'repotests': True,
        'mc_quick': ['MC_quick_nest.cfg', ('Conc_B.cfg', 300, 'FBConcMC.tla'), ('Conc_E.cfg', 300, 'FBConcMC.tla')],
        'mc_thorough': [('MC_nest.cfg', 1500)],
        'title': 'At most one execution per key',
        'units': [('dup', 4000, 50000), ('general', 500, 8000), ('regress', 0, 0)],
        'thread_units': (120, 1200, 8, 0, 2, 10), 'thread_profile': 'threaddup',
        'owned': {'DuplicateRejected', 'SetupErrClass', 'SetupFailExpected', 'NoSpuriousException',
                  'ReuseOnlyIfValid', 'ExecOnlyIfJustified', 'PersistedEqualsReturned', 'ReturnMatches',
                  'FinalTreeMatches', 'OutputsNotRewritten', 'TargetFileAfterOk', 'OutcomeMatches',
                  'ExceptionClassMatches'},
        'nontrivial': lambda st, sc: st['sfail'] > 0,
        'rule': 'two targets / one subbuild key so that the same path or key is requested repeatedly: same '
                'level, nested, inside and after reused subtrees, after a failed first occurrence, across '
                'rebuilds; non-trivial = at least one rejected duplicate (setup failure) in the trace',
    },
    'C11': {
        'mc_quick': ['MC_quick.cfg'], 'sim': None,
        'title': 'No aliasing',
        'units': [('mutate', 4000, 50000), ('regress', 0, 0)],
        'owned': {'PersistedEqualsReturned', 'ExecOnlyIfJustified', 'ReuseOnlyIfValid', 'ReturnMatches',
                  'ArgsRoundTripped', 'DuplicateRejected', 'FinalTreeMatches', 'AnswerMatches',
                  'NoSpuriousException', 'OutputsNotRewritten'},
        'nontrivial': lambda st, sc: st['reuse'] > 0,
        'rule': 'every value-carrying edge (container args/kwargs in, return values out - fresh and served '
                'from the cache -, list_dir/walk results) is mutated in place by the interpreted user code, '
                'followed by the rest of the build and unchanged rebuilds; non-trivial = a value was served '
                'from a record after mutations happened',
    },
    'C14': {
        'mc_quick': ['MC_quick.cfg'], 'sim': None,
        'title': 'Internal OS errors',
        'fault_units': (500, 6000, 4, 0),      # base histories quick/thorough, fault points per history (0 = all)
        # programs that retry / fall back after a caught error (all fault points); builds that move more than 256 files
        # aside, a fault at the creation of one of the backup store's directories (sampled / thorough: all)
        'fault_extra': [('faultretry', 120, 1500, 0, 0), ('bulkfault', 1, 2, 16, 0, ['makedirs'])],
        'units': [],
        'owned': set(CLAUSE_OWNER) | {'FaultSurfaces', 'FaultLeavesConsistent', 'CacheReplacedOnlyOnSuccess'},
        'nontrivial': lambda st, sc: sc.get('fault_at') is not None,
        'rule': 'for each random history the library\'s own directory-creating / move-aside / cache-writing '
                'calls are counted in a fault-free run under the interposer, then the history is re-run once '
                'per chosen fault point with an injected OSError; the whole trace (exception surfaces, rollback '
                'or consistent continuation, final tree, next builds) is validated; non-trivial = a fault was '
                'injected',
    },
    'C16': {
        'mc_quick': ['MC_quick.cfg'], 'sim': None,
        'title': 'Cache persistence',
        'fault_units': (400, 5000, 0, 0),
        'fault_profile': 'persist',
        'fault_calls': ['gzip.open:w', 'gzip.write'],
        'units': [('persist', 3000, 40000), ('mutate', 500, 6000), ('regress', 0, 0)],
        'owned': {'PersistedEqualsReturned', 'CacheWritten', 'CacheReplacedOnlyOnSuccess', 'ExecOnlyIfJustified',
                  'ReuseOnlyIfValid', 'ReturnMatches', 'NoSpuriousException', 'FinalTreeMatches', 'CleanExact',
                  'RollbackRestores', 'FaultSurfaces', 'AnswerMatches', 'OutputsNotRewritten',
                  'ArgsRoundTripped', 'TempDirRemoved', 'RefusalExpected', 'RefusalNoEffect'},
        'nontrivial': lambda st, sc: st['reuse'] > 0 or sc.get('fault_at') is not None,
        'rule': 'programs returning exotic JSON values (non-BMP / lone-surrogate / control-character strings, '
                '2^63, 10^40, -0.0, 1e308, 5e-324, +-inf, deep nesting, non-string keys, tuples), outputs and '
                'directories with spaces / non-ASCII / leading dots / 200-character names, exotic version values, '
                'caught failures; unchanged rebuilds must serve type-exact equal values and invoke nothing; the '
                'cache write (gzip.open and write) is failed once at every occurrence; non-trivial = a value was '
                'served from the cache, or a cache-write fault was injected',
    },
    'C15': {
        'repotests': True,
        'mc_quick': ['MC_quick_clean.cfg'], 'sim': None,
        'title': 'Refused calls',
        'units': [('subcache', 0, 0), ('refuse', 4000, 60000)],
        'owned': {'RefusalNoEffect', 'RefusalExpected', 'RefusedCallRanUserCode', 'TempDirRemoved',
                  'CleanNoCacheNoEffect'},
        'nontrivial': lambda st, sc: st['refuse'] > 0,
        'rule': 'random histories with refused calls inserted after builds: wrong argument types at each '
                'position of build_versioned/clean, build-name mismatch, cache path is a directory, cache '
                'bytes derived from the real cache file of that history by truncation at several offsets, '
                'single bit flips, non-gzip, gzip of non-JSON, JSON non-object, other software, newer format, '
                'missing key; non-trivial = at least one refused call was judged (tree bit-identical, no '
                'temp dir left, no user code run)',
    },
    'C09': {
        'mc_quick': [(c, 300, 'FBConcMC.tla') for c in ('Conc_A.cfg', 'Conc_B.cfg', 'Conc_C.cfg', 'Conc_D.cfg',
                                                         'Conc_Ds.cfg', 'Conc_E.cfg')]
        + [('Backup_q.cfg', 300, 'FBBackup.tla'), ('Hash.cfg', 300, 'FBHash.tla')], 'sim': None,
        'apalache': ('FBSlotApa.tla', 'Init', 'IndInv', 'SlotsDistinct'),     # thorough tier only
        'title': 'Thread safety',
        'thread_units': (150, 1500, 10, 0, 3, 12),   # base histories q/t, single preemptions per par q/t (0 = all), pairs q/t
        'full_pairs': (12, 150),                     # two-thread histories whose (k1, k2) preemption pairs are all enumerated
        # concurrent rebuilds of existing outputs followed by a rollback: profile, histories q/t, singles q/t (0 = all),
        # pairs q/t, fully enumerated histories q/t
        'thread_extra': [('threadsrb', 40, 500, 0, 0, 2, 10, 2, 30), ('threadsq', 60, 600, 8, 0, 2, 8, 6, 40),
                         ('threadsrbl', 6, 60, 0, 0, 0, 0, 0, 0), ('threadsswap', 8, 100, 0, 0, 4, 12, 2, 20)],
        'units': [('regress', 0, 0)],
        'owned': set(CLAUSE_OWNER) | {'NoDeadlock', 'LockOrderAcyclic', 'LockOrderDocumented', 'LockOrderSameRole', 'CleanupRemovesOwnDirsOnly'},
        'nontrivial': lambda st, sc: any(x.get('s') == 'par' and (x.get('preempt') or x.get('rseed') is not None)
                                         for stp in sc['steps'] for x in stp.get('root', [])),
        'rule': 'root functions issuing 2-3 independent build_file/subbuild calls from cooperative threads: new / '
                'shared / nested / stale parent directories, failing functions, nested calls, duplicates; followed by '
                'an unchanged concurrent rebuild and clean; schedules = every (quick: sampled) single preemption at '
                'the measured yield points of each thread, sampled pairs/triples, seeded random switching; the merged '
                'trace is validated against the sequential contract; non-trivial = a schedule with at least one '
                'forced or random preemption',
    },
    'C17': {
        'repotests': True,
        'mc_quick': [('Fence_nested.cfg', 120, 'FBFence.tla'), ('Fence_root.cfg', 120, 'FBFence.tla')], 'sim': None,
        'title': 'Finished builders are fenced off',
        'units': [('stale', 2500, 30000)],
        'thread_units': (250, 2500, 8, 0, 0, 0), 'thread_profile': 'straggler',
        'owned': set(CLAUSE_OWNER) | {'FencedAfterClose', 'FencedNoEffect', 'NoDeadlock'},
        'nontrivial': lambda st, sc: bool(sc.get('stale')) or any(stp.get('straggler', {}).get('preempt') for stp in sc['steps']),
        'rule': 'sequential: every method of the builders of ended root / build_file / subbuild activations is '
                'called later in the same build and after build() returned (must raise RuntimeError, call no user '
                'function, change nothing); racing: the root function hands its builder to a cooperative straggler '
                'thread and returns or raises, the owner is preempted at every measured yield point after the '
                'hand-off; calls that completed are placed before the end of the root function in the trace and '
                'must therefore be part of the record (next build, clean), fenced ones must be RuntimeError; '
                'non-trivial = stale calls were made, or a preemption was forced',
    },
    'C10': {
        'repotests': True,
        # MC_self*: Targets not prefix-free (a function can treat its own target as a directory)
        'mc_quick': ['MC_quick.cfg', 'MC_self_q.cfg'], 'mc_thorough': [('MC_nest.cfg', 1500), ('MC_self.cfg', 900)],
        'sim': [('MC_sim.cfg', 100, 1500, 60), ('MC_sim_self.cfg', 30, 500, 60)],
        'title': 'build_file contract',
        'units': [('nested', 1500, 20000), ('swap', 600, 8000), ('bfcontract', 2000, 30000), ('probe', 300, 5000), ('selfnest', 800, 10000), ('bulk', 2, 12), ('keys', 600, 6000), ('regress', 0, 0)],
        'owned': {'TargetFileAfterOk', 'TargetAbsentAfterFail', 'OutcomeMatches', 'PathNormalised',
                  'SetupErrClass', 'SetupFailExpected', 'ExcIdentity', 'ReturnMatches', 'AnswerMatches',
                  'FinalTreeMatches', 'RollbackRestores', 'CleanExact', 'ExceptionClassMatches',
                  'NoSpuriousException'},
        'nontrivial': lambda st, sc: st['sfail'] > 0 or st['inv'] > 2,
        'rule': 'targets of depth 1-4 incl. over-long components, foreign dirs/files at target and ancestors, '
                'functions that raise before/after writing, do not create, return non-JSON; probe-all after '
                'calls; non-trivial = a setup failure or at least three executed calls',
    },
    'C12': {
        'samples': (300, 3000),
        'repotests': True,
        'mc_quick': ['MC_quick_clean.cfg'], 'mc_thorough': [('MC_tiny.cfg', 900)],
        'title': 'clean',
        # clean after builds that created their directories from several threads (who owns a directory is decided in
        # the window between mkdir and the reservation): the canonical race shape, all preemption pairs
        # (all single preemptions also in the quick tier: with four sampled ones the detection of seeded change
        # C12f_w10 depended on the sample, which shifted when repairs D30 / D34 added lock operations)
        'thread_units': (40, 400, 0, 0, 1, 6), 'full_pairs': (8, 80),
        # histories in which a query of the program fails with an OSError from a read-only call of the library
        # (listdir / stat / getsize / open for reading) and the program carries on (D35)
        'fault_extra': [('rebuildclean', 120, 2000, 6, 0, QUERY_FAULT_CALLS, 'query'),
                        ('clean', 80, 1500, 6, 0, QUERY_FAULT_CALLS, 'query')],
        'units': [('swap', 800, 10000), ('subcache', 800, 10000), ('subcacheq', 300, 4000), ('clean', 2000, 30000), ('rebuildclean', 2000, 30000), ('nested', 1500, 20000), ('foreign', 300, 5000)],
        'owned': {'CleanExact', 'CleanNoCacheNoEffect', 'ForeignUntouched', 'NoSpuriousException',
                  'ReuseOnlyIfValid'},
        'nontrivial': lambda st, sc: st['clean'] > 0,
        'rule': 'clean at every position of random histories (after commits, rollbacks, tampering, a '
                'previous clean, no cache); non-trivial = at least one clean of a valid cache',
    },
    'C13': {
        'mc_quick': ['MC_quick_hash.cfg', 'MC_quick.cfg'], 'sim': ('MC_sim_hash.cfg', 100, 1500, 60), 'mc_thorough': [('MC_tiny.cfg', 900)],
        'title': 'Comparison modes',
        'units': [('cmp', 2000, 30000), ('cmpback', 3000, 40000), ('bigfile', 2, 6)],
        'owned': {'ExecOnlyIfJustified', 'ReuseOnlyIfValid', 'OutputsNotRewritten'},
        'nontrivial': lambda st, sc: st['reuse'] > 0 and st['invfound'] > 0,
        'rule': 'touch / rewrite-keeping-size-and-mtime / rewrite of inputs and outputs between builds, reads '
                'and outputs under both modes; non-trivial = reuse and re-execution both occur',
    },
}


# the contract's state invariants, judged per trace by FBTrace: whichever check meets a violation reports it
INV_CLAUSES = {'InvView', 'InvAtomic', 'InvClaims', 'InvCache'}
for _p in PROPS.values():
    if 'owned' in _p:
        _p['owned'] = set(_p['owned']) | INV_CLAUSES
