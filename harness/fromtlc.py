"""spec -> code: turn behaviours exported by TLC from spec/FBRefMC.tla (hist, as JSON) into
scenarios that the interpreter replays on the real FileBuilder.  The program of a behaviour
is explicit: every call statement carries the statement list ("body") that the reference
execution took inside the callee (determinism across builds is guaranteed by the memo of
FBRefMC)."""
import hashlib
import json
import os
import re
import shutil
import subprocess
import tempfile

from . import tlc
from .sandbox import scratch_root

HIST_RE = re.compile(r'^<<"HIST", "(.*)">>\s*$')


def parse_hists(out):
    seen = set()
    hists = []
    for line in out.splitlines():
        m = HIST_RE.match(line)
        if not m:
            continue
        raw = m.group(1)
        h = hashlib.sha1(raw.encode()).hexdigest()
        if h in seen:
            continue
        seen.add(h)
        try:
            hists.append(json.loads(raw.encode().decode('unicode_escape')))
        except Exception:
            hists.append(json.loads(raw.replace('\\"', '"').replace('\\\\', '\\')))
    return hists


def stmt_of(st):
    s = st['s']
    if s == 'q':
        q = {'s': 'q', 'kind': st['kind'], 'p': st['p'], 'cmp': st.get('cmp', 'METADATA'), 'td': bool(st.get('td', True))}
        q['how'] = 'declare'
        return q
    if s == 'bf':
        return {'s': 'bf', 'p': st['p'], 'f': st['f'], 'args': [], 'cmp': st['cmp'], 'catch': True, 'body': []}
    if s == 'sb':
        return {'s': 'sb', 'f': st['f'], 'args': [], 'catch': True, 'body': []}
    if s == 'write':
        return {'s': 'write', 'c': st['c'], 'sz': st['sz'], 'mt': st['mt']}
    if s == 'ret':
        return {'s': 'return', 'v': {'k': 'str', 's': 'r'}}
    if s == 'raise':
        return {'s': 'raise'}
    raise ValueError(st)


def scenario_of(hist, sid):
    steps = []
    stack = None            # list of statement lists, index = level
    for h in hist:
        k = h['h']
        if k == 'ext':
            st = {'op': 'ext', 'do': h['do'], 'p': h['p']}
            if h['do'] in ('write', 'rewrite_keep_meta'):
                st.update(c=h['c'], sz=h['sz'], mt=h['mt'])
            steps.append(st)
        elif k == 'build':
            vers = {}
            for kv in h['vers']['kv']:
                vers[kv[0]['s']] = kv[1]
            root = []
            steps.append({'op': 'build', 'name': 'B', 'vers': vers, 'root': root})
            stack = [root]
        elif k == 'clean':
            steps.append({'op': 'clean', 'name': 'B'})
        elif k == 'stmt':
            lvl = h['lvl']
            del stack[lvl + 1:]
            cur = stack[lvl]
            s = h['st']['s']
            if s == 'prop':
                # the function ends by letting the exception of its last call propagate
                for prev in reversed(cur):
                    if prev['s'] in ('bf', 'sb'):
                        prev['catch'] = False
                        break
                continue
            st = stmt_of(h['st'])
            cur.append(st)
            if s in ('bf', 'sb'):
                stack.append(st['body'])
    return {'id': sid, 'cache': ['k'], 'universe': [], 'steps': steps}


def simulate(cfg, num, depth, seed, timeout=600, module='FBRefMC.tla'):
    """Run one TLC simulation process; returns (behaviours, stats, ok, out)."""
    work = tempfile.mkdtemp(prefix='fbv_sim_', dir=scratch_root())
    try:
        cmd = ['java', '-XX:+UseSerialGC', '-Xss16m', '-Xmx3g', '-cp', tlc.TLC_CP, 'tlc2.TLC', '-simulate', 'num=%d' % num,
               '-depth', str(depth), '-seed', str(seed), '-workers', '1', '-metadir', os.path.join(work, 'm'),
               '-noGenerateSpecTE', '-config', cfg, module]
        p = subprocess.run(cmd, cwd=tlc.SPEC_DIR, stdout=subprocess.PIPE, stderr=subprocess.STDOUT, text=True,
                           timeout=timeout)
        out = p.stdout
        m = re.search(r'The number of states generated: (\d+)', out)
        states = int(m.group(1)) if m else 0
        m = re.search(r'(\d+) traces generated', out)
        ntr = int(m.group(1)) if m else 0
        ok = ('Error' not in out) and states > 0
        rv = {'valid': out.count('<<"RV", "valid"'), 'invalid': out.count('<<"RV", "invalid"'),
              'fuzzy': out.count('<<"RV", "fuzzy"')}
        return parse_hists(out), {'states': states, 'distinct': states, 'traces': ntr, 'reuse_predictions_checked': rv}, ok, out
    finally:
        shutil.rmtree(work, ignore_errors=True)


def simulate_parallel(cfg, num, depth, seed, procs=16, timeout=900):
    from concurrent.futures import ThreadPoolExecutor
    hists = []
    stats = {'states': 0, 'distinct': 0, 'traces': 0}
    rvs = {}
    oks = True
    errs = []
    with ThreadPoolExecutor(max_workers=procs) as ex:
        futs = [ex.submit(simulate, cfg, num, depth, seed * 16 + i + 1, timeout) for i in range(procs)]
        for f in futs:
            h, st, ok, out = f.result()
            hists += h
            for k in stats:
                stats[k] += st[k]
            for k, v in st.get('reuse_predictions_checked', {}).items():
                rvs[k] = rvs.get(k, 0) + v
            if not ok:
                oks = False
                errs.append(out[-3000:])
    # dedupe across processes
    seen = set()
    uniq = []
    for h in hists:
        d = hashlib.sha1(json.dumps(h, sort_keys=True).encode()).hexdigest()
        if d not in seen:
            seen.add(d)
            uniq.append(h)
    stats['reuse_predictions_checked'] = rvs
    return uniq, stats, oks, errs
