"""Debug helper: run one scenario, validate it, pretty-print the trace around the verdict."""
import json
import os
import sys


def pretty(trace, verdict=None, full=False):
    evs = trace['events']
    depth = 0
    lines = []
    for i, e in enumerate(evs):
        ev = e['ev']
        mark = '>>' if verdict and verdict.get('verdict') == 'rejected' and i == verdict['at'] - 1 else '  '
        if ev in ('build', 'build_end', 'clean'):
            def fmt(es):
                return ' '.join('/'.join(x['p']) + ('/' if x['t'] == 'dir' else '@' if x['t'] == 'pin'
                                                    else '=%s,%s,%s' % (x['c'], x['sz'], x['mt']))
                                for x in es if x['p'])
            extra = ''
            if ev == 'build':
                extra = 'vers=' + json.dumps(e['vers']['kv'])
            if ev == 'clean':
                extra = 'after: ' + fmt(e['after'])
            lines.append('%s%4d %s %s %s cser=%s | %s | %s' % (mark, i + 1, ev, e.get('out', ''), e.get('err', ''),
                                                               e.get('cser'), fmt(e['disk']), extra))
            depth = 0
            continue
        if ev in ('bf_end', 'sb_end') and e['inv']:
            depth -= 1
        s = '  ' * depth
        if ev == 'q':
            lines.append('%s%4d %s q %s %s %s -> %s' % (mark, i + 1, s, e['kind'], '/'.join(e['p']),
                                                       e.get('cmp') if e['kind'] == 'read' else '', json.dumps(e['res'])))
        elif ev in ('bf_begin', 'sb_begin'):
            lines.append('%s%4d %s %s %s %s %s %s' % (mark, i + 1, s, ev, '/'.join(e.get('p', [])), e['f'],
                                                   json.dumps(e['args'].get('xs')), e.get('cmp', '')))
        elif ev == 'invoke':
            lines.append('%s%4d %s invoke' % (mark, i + 1, s))
            depth += 1
        elif ev in ('bf_end', 'sb_end'):
            lines.append('%s%4d %s %s %s %s %s ret=%s real=%s' % (mark, i + 1, s, ev, 'inv' if e['inv'] else 'NOINV', e['out'],
                                                               e['err'], json.dumps(e['ret'])[:60], e.get('real')))
            if e.get('tb') and full:
                lines.append(e['tb'])
        elif ev == 'write':
            lines.append('%s%4d %s write %s %s mt=%s' % (mark, i + 1, s, e['c'], e['sz'], e['mt']))
        elif ev == 'fn_end':
            lines.append('%s%4d %s fn_end %s %s' % (mark, i + 1, s, e['out'], e['err']))
        else:
            lines.append('%s%4d %s %s' % (mark, i + 1, s, ev))
    return '\n'.join(lines)


def main(argv):
    os.environ.setdefault('FBV_TB', '1')
    sys.path.insert(0, os.path.dirname(os.path.dirname(os.path.abspath(__file__))))
    from harness import gen, tlc
    from harness.interp import run_scenario
    if argv[0].endswith('.json'):
        d = json.load(open(argv[0]))
        sc = d.get('scenario', d)
    else:
        sc = gen.make_scenario(int(argv[1]), argv[0])
    for st in sc['steps']:
        print('STEP', json.dumps(st, default=str)[:400])
    t = run_scenario(sc)
    v, _ = tlc.validate([t], jobs=1)
    vv = v[t['id']]
    print(pretty(t, vv, full=True))
    print('VERDICT', vv)


if __name__ == '__main__':
    main(sys.argv[1:])
