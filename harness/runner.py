"""Check driver: scenario generation -> replay on the real code -> TLC trace
validation -> verdict attribution -> evidence / replay files / exit code."""
import hashlib
import json
import multiprocessing as mp
import os
import sys
import time
import traceback

VERIF = os.path.dirname(os.path.dirname(os.path.abspath(__file__)))
_OUT = os.environ.get('FBV_OUT_DIR') or VERIF          # selftest redirects evidence / replays of mutant runs
EVIDENCE_DIR = os.path.join(_OUT, 'evidence')
REPLAY_DIR = os.path.join(_OUT, 'replays')
KF_FILE = os.path.join(VERIF, 'known_findings.json')


def _run_one(sc):
    from .interp import run_scenario
    try:
        return run_scenario(sc)
    except Exception:
        return {'id': sc.get('id', '?'), 'harness_error': traceback.format_exc()[-3000:], 'events': []}


def run_scenarios(scenarios, procs=16):
    """Run scenarios against the real code (fresh processes import /repo's tree)."""
    if len(scenarios) < 40 or procs <= 1:
        return [_run_one(sc) for sc in scenarios]
    ctx = mp.get_context('fork')
    with ctx.Pool(procs) as pool:
        return pool.map(_run_one, scenarios, chunksize=max(1, len(scenarios) // (procs * 8)))


def load_known_findings():
    if not os.path.exists(KF_FILE):
        return []
    with open(KF_FILE) as f:
        return json.load(f).get('findings', [])


def open_kf_names():
    return sorted(k['id'] for k in load_known_findings() if k.get('status') == 'open' and k.get('in_spec'))


def family_known_finding(sc, v):
    """An open known finding that is identified by a history shape: the generator marks the scenarios of that
    shape (`kf_family`), the entry lists the clauses the defect can break.  A rejection of such a scenario by one
    of those clauses is the known finding; anything else - another clause, another scenario - is reported."""
    fam = sc.get('kf_family')
    if not fam:
        return None
    for k in load_known_findings():
        if k.get('status') == 'open' and k.get('family') == fam and v['clause'] in k.get('clauses', []):
            return k['id']
    return None


def scenario_digest(trace):
    def strip(e):
        return {k: v for k, v in e.items() if k not in ('tb',)}
    return hashlib.sha1(json.dumps([strip(e) for e in trace['events']], sort_keys=True).encode()).hexdigest()


def write_replay(pid, scenario, trace, verdict):
    os.makedirs(REPLAY_DIR, exist_ok=True)
    name = '%s_%s.json' % (pid, ''.join(ch if ch.isalnum() or ch in '-_' else '_' for ch in scenario['id']))
    path = os.path.join(REPLAY_DIR, name)
    sc = json.loads(json.dumps(scenario, default=lambda o: '<py>'))
    with open(path, 'w') as f:
        json.dump({'property': pid, 'verdict': verdict, 'scenario': sc, 'trace': trace}, f, indent=1)
    return path


def write_evidence(pid, tier, seed, coverage, wall_s, violations, assumptions):
    os.makedirs(EVIDENCE_DIR, exist_ok=True)
    ev = {'property_id': pid, 'tier': tier, 'seed': seed, 'level': 'model_checking',
          'coverage': coverage, 'assumptions': assumptions, 'wall_s': round(wall_s, 2),
          'violations': violations}
    path = os.path.join(EVIDENCE_DIR, pid + '.json')
    tmp = path + '.tmp'
    with open(tmp, 'w') as f:
        json.dump(ev, f, indent=1, default=str)
    os.replace(tmp, path)
    try:
        import jsonschema
        with open('/root/.vp/EVIDENCE.schema.json') as f:
            jsonschema.validate(ev, json.load(f))
    except ImportError:
        pass
    except FileNotFoundError:
        pass
    return path


class Outcome:
    def __init__(self):
        self.violations = []        # (scenario, trace, verdict)
        self.known = []             # (kf id, scenario id)
        self.others = []            # clause failures owned by another property
        self.machinery = []         # harness / spec errors
        self.accepted = 0
        self.total = 0
        self.nontrivial = set()
        self.stats = {'states': 0, 'distinct': 0, 'jvms': 0, 'wall_s': 0.0}
        self.samples = []
        self.clause_hist = {}


def judge(pid, scenarios, owned, nontrivial, tlc_mod, cfg=None, module='FBTrace.tla',
          procs=16, detectors=()):
    """Run + validate scenarios; classify rejections for property pid."""
    out = Outcome()
    traces = run_scenarios(scenarios, procs)
    by_id = {sc['id']: sc for sc in scenarios}
    good = []
    out.lock_edges, out.lock_same = set(), set()
    for t in traces:
        out.lock_edges |= set(map(tuple, t.get('lock_edges', [])))
        out.lock_same |= set(map(tuple, t.get('lock_same', [])))
        if t.get('harness_error'):
            out.machinery.append((t['id'], t['harness_error']))
        elif t.get('unjudged'):
            out.unjudged = getattr(out, 'unjudged', 0) + 1      # racing call fenced half-way: not judged (DESIGN C17)
            if t.get('unjudged_kf'):
                out.known.append((t['unjudged_kf'], t['id']))   # ... which is an open known finding of its own
        else:
            good.append(t)
    verdicts, st = tlc_mod.validate(good, jobs=procs, cfg=cfg, module=module, open_kf=open_kf_names())
    for k in ('states', 'distinct', 'jvms'):
        out.stats[k] += st.get(k, 0)
    out.stats['wall_s'] += st.get('wall_s', 0)
    out.total = len(traces)
    for t in good:
        v = verdicts[t['id']]
        sc = by_id[t['id']]
        for k in v.get('kf', []):
            out.known.append((k, t['id']))
        if v['verdict'] == 'accepted':
            out.accepted += 1
            if nontrivial(v['st'], sc):
                out.nontrivial.add(scenario_digest(t))
            if len(out.samples) < 3 and nontrivial(v['st'], sc):
                out.samples.append({'scenario_id': t['id'], 'events': len(t['events']),
                                    'spec_counters': v['st'],
                                    'steps': json.loads(json.dumps(sc['steps'], default=lambda o: '<py>'))[:8],
                                    'first_events': [{k: e[k] for k in e if k not in ('disk', 'after')}
                                                     for e in t['events'][:12]]})
            continue
        clause = v['clause']
        out.clause_hist[clause] = out.clause_hist.get(clause, 0) + 1
        if clause.startswith('H:'):
            out.machinery.append((t['id'], 'harness clause %s at event %d' % (clause, v['at'])))
            continue
        hit = None
        for det in detectors:
            hit = det(sc, t, v)
            if hit:
                break
        if not hit:
            hit = family_known_finding(sc, v)
        if hit:
            out.known.append((hit, t['id']))
        elif clause in owned or (set(v.get('also', [])) & owned):
            out.violations.append((sc, t, v))
        else:
            out.others.append({'scenario': t['id'], 'clause': clause, 'at': v['at']})
    return out


def judge_traces(pid, traces, owned, tlc_mod, procs=16):
    """Validate already recorded traces (no scenario to re-run): rejections owned by the property are
    violations; the replay file holds the recorded trace."""
    out = Outcome()
    out.total = len(traces)
    if not traces:
        return out
    verdicts, st = tlc_mod.validate(traces, jobs=procs, open_kf=open_kf_names())
    for k in ('states', 'distinct', 'jvms'):
        out.stats[k] += st.get(k, 0)
    for t in traces:
        v = verdicts[t['id']]
        for k in v.get('kf', []):
            out.known.append((k, t['id']))
        if v['verdict'] == 'accepted':
            out.accepted += 1
            out.nontrivial.add(scenario_digest(t))
            continue
        clause = v['clause']
        out.clause_hist[clause] = out.clause_hist.get(clause, 0) + 1
        if clause.startswith('H:'):
            out.machinery.append((t['id'], 'harness clause %s at event %d' % (clause, v['at'])))
        elif clause in owned or (set(v.get('also', [])) & owned):
            out.violations.append(({'id': t['id'], 'recorded': True, 'steps': []}, t, v))
        else:
            out.others.append({'scenario': t['id'], 'clause': clause, 'at': v['at']})
    return out
