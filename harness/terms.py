"""Python value <-> JsonVal term encoding (see spec/JsonVal.tla).

A *term* is a JSON-serialisable dict that keeps the exact concrete Python type
of every node, so that TLC can reason about JSON equality / sanitisation
without numbers (TLC integers are 32-bit and the Json module mangles >= 2^31):

    {"k":"none"} {"k":"bool","b":true} {"k":"int","n":"<numeric id>"}
    {"k":"float","n":"<numeric id>","r":"<repr>"} {"k":"str","s":"..."}
    {"k":"list","xs":[..]} {"k":"tuple","xs":[..]}
    {"k":"dict","kv":[[keyterm, valterm], ..]}   (insertion order kept)
    {"k":"other","r":"<type name>"}              (not a JSON value)

The numeric id ``n`` is the only piece of arithmetic the binding owns: two
numbers get the same id iff they are numerically equal (1 and 1.0 -> "1").
"""
import math


def num_id(x):
    if isinstance(x, bool):
        raise TypeError
    if isinstance(x, int):
        return str(int(x))
    if isinstance(x, float):
        if x != x:
            return 'nan'
        if x == math.inf:
            return 'inf'
        if x == -math.inf:
            return '-inf'
        if x == int(x):
            return str(int(x))
        return repr(float(x))
    raise TypeError


def to_term(v):
    c = v.__class__
    if v is None:
        return {'k': 'none'}
    if c is bool:
        return {'k': 'bool', 'b': bool(v)}
    if c is int:
        return {'k': 'int', 'n': num_id(v)}
    if c is float:
        return {'k': 'float', 'n': num_id(v), 'r': repr(v)}
    if c is str:
        return {'k': 'str', 's': v}
    if c is list:
        return {'k': 'list', 'xs': [to_term(x) for x in v]}
    if c is tuple:
        return {'k': 'tuple', 'xs': [to_term(x) for x in v]}
    if c is dict:
        return {'k': 'dict', 'kv': [[to_term(a), to_term(b)] for a, b in v.items()]}
    # instances of subclasses of the JSON types: sanitize / a JSON round trip maps them to the base type
    if isinstance(v, bool):
        return {'k': 'other', 'r': c.__name__}
    if isinstance(v, int):
        return {'k': 'intS', 'n': num_id(int.__int__(v))}        # the stored number, whatever __int__ says (D40)
    if isinstance(v, float):
        return {'k': 'floatS', 'n': num_id(float.__float__(v)), 'r': repr(float.__float__(v))}
    if isinstance(v, str):
        return {'k': 'strS', 's': str.__str__(v)}
    if isinstance(v, list):
        return {'k': 'listS', 'xs': [to_term(x) for x in v]}
    if isinstance(v, tuple):
        return {'k': 'tupleS', 'xs': [to_term(x) for x in v]}
    if isinstance(v, dict):
        return {'k': 'dictS', 'kv': [[to_term(a), to_term(b)] for a, b in v.items()]}
    return {'k': 'other', 'r': c.__name__}


def from_term(t):
    k = t['k']
    if k == 'none':
        return None
    if k == 'bool':
        return bool(t['b'])
    if k == 'int':
        return int(t['n'])
    if k == 'float':
        return float(t['r'])
    if k == 'str':
        return t['s']
    if k == 'list':
        return [from_term(x) for x in t['xs']]
    if k == 'tuple':
        return tuple(from_term(x) for x in t['xs'])
    if k == 'dict':
        return {_hashable(from_term(a)): from_term(b) for a, b in t['kv']}
    # instances of subclasses of the JSON types
    if k == 'intS':
        return IntS(int(t['n']))
    if k == 'floatS':
        return FloatS(float(t['r']))
    if k == 'strS':
        return StrS(t['s'])
    if k == 'listS':
        return ListS(from_term(x) for x in t['xs'])
    if k == 'tupleS':
        return TupleS(from_term(x) for x in t['xs'])
    if k == 'dictS':
        return DictS((_hashable(from_term(a)), from_term(b)) for a, b in t['kv'])
    raise ValueError(t)


class IntS(int):
    # like the members of an IntEnum: a repr of its own (json and the library must not use it)
    def __repr__(self):
        return '<IntS %d>' % int(self)
    __str__ = __repr__


class FloatS(float):
    def __repr__(self):
        return '<FloatS %s>' % float.__repr__(self)
    __str__ = __repr__


class StrS(str):
    # like the members of 'class Color(str, enum.Enum)': a str()/repr() of its own, which json ignores (D36)
    def __repr__(self):
        return '<StrS %s>' % str.__repr__(self)
    __str__ = __repr__


class ListS(list):
    pass


class TupleS(tuple):
    pass


class DictS(dict):
    pass


def _hashable(v):
    return v


def show(v):
    """Type-exact one-line rendering, used where TLC only needs equality."""
    c = v.__class__
    if v is None:
        return 'N'
    if c is bool:
        return 'T' if v else 'F'
    if c is int:
        return 'i' + str(v)
    if c is float:
        return 'f' + repr(v)
    if c is str:
        return 's' + repr(v)
    if c is list:
        return '[' + ','.join(show(x) for x in v) + ']'
    if c is tuple:
        return '(' + ','.join(show(x) for x in v) + ')'
    if c is dict:
        return '{' + ','.join(show(a) + ':' + show(b) for a, b in v.items()) + '}'
    return '<' + c.__name__ + '>'
