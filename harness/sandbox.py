"""Sandbox directory, the concrete <-> abstract projection and snapshots.

Spec path <<"a","b">>  <->  <sandbox>/a/b.  Content id "c1" of size class sz
<-> the bytes b"c1" padded with "." to sz bytes.  Logical mtime mt  <->
st_mtime_ns = (BASE + mt) * 10^9 (set by the harness after every write it
performs), so "same mtime" is meaningful and METADATA comparisons are
deterministic.  snapshot() is the single function used for every disk
comparison.
"""
import hashlib
import os
import shutil
import stat
import tempfile

BASE = 1_600_000_000
NS = 1_000_000_000
LONG = 'L' * 300     # a component no file system here accepts (ENAMETOOLONG)
PAD = b'\0'          # contents are padded with NUL bytes: two sizes of one content id differ only in trailing NULs


def scratch_root():
    for d in ('/dev/shm', '/tmp'):
        if os.path.isdir(d) and os.access(d, os.W_OK):
            return d
    return tempfile.gettempdir()


class Sandbox:
    def __init__(self, cache_path=('k',), parent=None, key=None):
        # The directory name is derived from the scenario id, so that a re-run (a replay file) sees the same path
        # strings: code whose behaviour depends on the iteration order of a set of file names is then reproducible
        # under PYTHONHASHSEED=0.  A concurrent run of the same scenario falls back to a random name.
        base = parent or scratch_root()
        self.top = None
        if key is not None:
            cand = os.path.join(base, 'fbv_' + hashlib.sha256(str(key).encode()).hexdigest()[:8])
            try:
                os.mkdir(cand, 0o700)
                self.top = cand
            except OSError:
                pass
        if self.top is None:
            self.top = tempfile.mkdtemp(prefix='fbv_', dir=base)
        self.root = os.path.join(self.top, 'root')
        self.tmp = os.path.join(self.top, 'tmp')
        os.mkdir(self.root)
        os.mkdir(self.tmp)
        self.cache_path = tuple(cache_path)
        self.clock = 0
        self.cache_serials = {}     # sha256(bytes) -> serial
        self.cache_docs = {}        # decompressed text -> serial
        self.planted = {}           # sha256(bytes) -> content id of planted non-padded files

    # -- projection -------------------------------------------------------
    def path(self, p):
        comps = [LONG if c == 'LONG' else c for c in p]
        return os.path.join(self.root, *comps) if comps else self.root

    def cache_file(self):
        return self.path(self.cache_path)

    def unpath(self, filename):
        rel = os.path.relpath(filename, self.root)
        if rel == '.':
            return []
        return ['LONG' if c == LONG else c for c in rel.split(os.sep)]

    def tick(self):
        self.clock += 1
        return self.clock

    @staticmethod
    def content_bytes(c, sz):
        b = c.encode()
        if len(b) > sz:
            raise ValueError('content id longer than size class')
        return b + PAD * (sz - len(b))

    def set_mtime(self, filename, mt):
        t = (BASE + mt) * NS
        os.utime(filename, ns=(t, t))

    def write_file(self, filename, c, sz, mt=None, link=False, through=False):
        """Create/replace a regular file with content id c (fresh inode).
        link: the file is created as a symbolic link to a regular file kept outside the sandbox root (for the
        library, the model and the snapshot it is a file like any other: everything follows the link).
        through: if the path is such a link already, its target is rewritten in place and the link is left alone."""
        if mt is None:
            mt = self.tick()
        if through and os.path.islink(filename) and os.path.isfile(filename):
            with open(filename, 'wb') as f:
                f.write(self.content_bytes(c, sz))
            self.set_mtime(filename, mt)
            return mt
        if os.path.lexists(filename) and not os.path.isdir(filename):
            os.remove(filename)
        if link:
            self.blobs = getattr(self, 'blobs', 0) + 1
            bdir = os.path.join(self.top, 'blobs')
            os.makedirs(bdir, exist_ok=True)
            blob = os.path.join(bdir, 'blob%d.bin' % self.blobs)
            with open(blob, 'wb') as f:
                f.write(self.content_bytes(c, sz))
            os.symlink(blob, filename)
        else:
            with open(filename, 'wb') as f:
                f.write(self.content_bytes(c, sz))
        self.set_mtime(filename, mt)
        return mt

    # -- snapshot ---------------------------------------------------------
    def recorded_outputs(self):
        """Real paths of the output files recorded in the cache file that is on disk now (empty if none / unreadable)."""
        import gzip
        import json
        try:
            with open(self.cache_file(), 'rb') as f:
                doc = json.loads(gzip.decompress(f.read()).decode())
        except Exception:       # noqa
            return set()
        found = set()

        def walk(ops):
            for o in ops or []:
                if isinstance(o, dict):
                    if o.get('type') == 'build_file' and not o.get('setupFailed') and isinstance(o.get('filename'), str):
                        found.add(os.path.realpath(o['filename']))
                    walk(o.get('suboperations'))
        walk(doc.get('rootOperations') if isinstance(doc, dict) else None)
        return found

    def node(self, filename, st=None):
        st = st or os.lstat(filename)
        if (stat.S_ISLNK(st.st_mode) and getattr(self, 'alias_pins', False)
                and os.path.realpath(filename) in self.recorded_outputs()):
            # projection rule for histories with links that alias outputs (KF-link-to-stale-output): a symbolic link
            # to a file the current cache file records as an output is what it is from scratch - a link to nothing
            return {'t': 'pin'}
        if stat.S_ISLNK(st.st_mode) and os.path.isfile(filename):
            st = os.stat(filename)          # a link to a regular file counts as that file
        elif stat.S_ISLNK(st.st_mode) and not os.path.exists(filename):
            return {'t': 'pin'}             # a dangling link: invisible to queries, but it occupies its directory
        if stat.S_ISDIR(st.st_mode):
            return {'t': 'dir'}
        if not stat.S_ISREG(st.st_mode):
            return {'t': 'file', 'c': '?other', 'sz': 0, 'mt': -1}
        with open(filename, 'rb') as f:
            data = f.read()
        h = hashlib.sha256(data).hexdigest()
        if h not in self.cache_serials and h not in self.planted and filename == self.cache_file():
            # a corruption the library cannot notice (e.g. a flipped bit in the gzip header's
            # mtime/OS bytes) leaves a cache with identical content: that is the same cache
            dec = self._decode_cache(data)
            if dec is not None and dec in self.cache_docs:
                self.cache_serials[h] = self.cache_docs[dec]
        if h in self.cache_serials:
            c = 'K%d' % self.cache_serials[h]
        elif h in self.planted:
            c = self.planted[h]
        else:
            s = data.rstrip(PAD)
            try:
                c = s.decode('ascii')
                if not c or not all(ch.isalnum() or ch in '_-:' for ch in c) or len(c) > 24:
                    raise ValueError
            except ValueError:
                c = '#' + h[:10]
        ns = st.st_mtime_ns
        mt = ns // NS - BASE if ns % NS == 0 and 0 <= ns // NS - BASE < 10_000_000 else -1
        return {'t': 'file', 'c': c, 'sz': st.st_size, 'mt': mt}

    def snapshot(self, with_ino=False):
        """List of entries {p, t[, c, sz, mt]} for everything below the root
        (the root itself included as p = [])."""
        out = [{'p': [], 't': 'dir'}]
        inos = {}
        for d, subdirs, subfiles in os.walk(self.root):
            subdirs.sort()
            for name in sorted(subdirs + subfiles):
                fn = os.path.join(d, name)
                st = os.lstat(fn)
                n = self.node(fn, st)
                n['p'] = self.unpath(fn)
                out.append(n)
                inos[tuple(n['p'])] = st.st_ino
        out.sort(key=lambda e: e['p'])
        if with_ino:
            return out, inos
        return out

    @staticmethod
    def _decode_cache(data):
        import gzip
        try:
            return gzip.decompress(data).decode()
        except Exception:
            return None

    def register_cache(self):
        """Give the current cache-file bytes a serial (after a committed build)."""
        fn = self.cache_file()
        if os.path.isfile(fn):
            with open(fn, 'rb') as f:
                data = f.read()
            h = hashlib.sha256(data).hexdigest()
            if h not in self.cache_serials:
                self.cache_serials[h] = max(list(self.cache_serials.values()) + [0]) + 1
                dec = self._decode_cache(data)
                if dec is not None:
                    self.cache_docs[dec] = self.cache_serials[h]
            return self.cache_serials[h]
        return 0

    def tmp_entries(self):
        return sorted(os.listdir(self.tmp))

    # -- external mutations ----------------------------------------------
    def _force_dirs(self, d):
        """mkdir -p d, replacing regular files that are in the way."""
        if os.path.isdir(d):
            return
        parent = os.path.dirname(d)
        if parent != d and len(parent) >= len(self.root):
            self._force_dirs(parent)
        if os.path.lexists(d) and not os.path.isdir(d):
            os.remove(d)
        os.mkdir(d)

    def ext(self, step):
        do = step['do']
        fn = self.path(step['p'])
        if do == 'write':
            self._force_dirs(os.path.dirname(fn))
            if os.path.isdir(fn) and not os.path.islink(fn):
                shutil.rmtree(fn)
            self.write_file(fn, step['c'], step['sz'], step.get('mt'), link=bool(step.get('link')),
                            through=bool(step.get('through')))
        elif do == 'touch':
            if os.path.isfile(fn):
                self.set_mtime(fn, step.get('mt') or self.tick())
        elif do == 'rewrite_keep_meta':
            if os.path.isfile(fn):
                st = os.stat(fn)
                with open(fn, 'r+b') as f:      # same inode, same size
                    f.write(self.content_bytes(step['c'], st.st_size))
                os.utime(fn, ns=(st.st_mtime_ns, st.st_mtime_ns))
        elif do == 'delete':
            if os.path.isdir(fn):
                shutil.rmtree(fn)
            elif os.path.lexists(fn):
                os.remove(fn)
        elif do == 'rmdir':
            if os.path.isdir(fn) and not os.listdir(fn):
                os.rmdir(fn)
        elif do == 'mkdir':
            self._force_dirs(fn)
        elif do == 'dangle':
            self._force_dirs(os.path.dirname(fn))
            if os.path.isdir(fn) and not os.path.islink(fn):
                shutil.rmtree(fn)
            elif os.path.lexists(fn):
                os.remove(fn)
            os.symlink(os.path.join(self.top, 'nowhere', 'at-all'), fn)
        elif do == 'linkto':
            # a symbolic link at p that points at another path of the tree (which may be an output of a build)
            self._force_dirs(os.path.dirname(fn))
            if os.path.isdir(fn) and not os.path.islink(fn):
                shutil.rmtree(fn)
            elif os.path.lexists(fn):
                os.remove(fn)
            os.symlink(self.path(step['to']), fn)
        elif do == 'corrupt_cache':
            self.corrupt_cache(step['how'], step.get('arg', 0))
        elif do == 'plant_raw':
            # arbitrary bytes (cache corruption classes); content id given by caller
            self._force_dirs(os.path.dirname(fn))
            if os.path.isdir(fn):
                shutil.rmtree(fn)
            data = bytes.fromhex(step['hex'])
            with open(fn, 'wb') as f:
                f.write(data)
            self.planted[hashlib.sha256(data).hexdigest()] = step['c']
            self.set_mtime(fn, step.get('mt') or self.tick())
        else:
            raise ValueError(do)

    def corrupt_cache(self, how, arg=0):
        """Derive a refused cache file from the real one of this history (C15)."""
        import gzip
        import json
        fn = self.cache_file()
        if how == 'dir':
            if os.path.lexists(fn) and not os.path.isdir(fn):
                os.remove(fn)
            os.makedirs(fn, exist_ok=True)
            return
        if not os.path.isfile(fn):
            return
        with open(fn, 'rb') as f:
            raw = f.read()
        try:
            doc = json.loads(gzip.decompress(raw).decode())
            if not (isinstance(doc, dict) and 'rootOperations' in doc and 'software' in doc):
                doc = None
        except Exception:
            doc = None
        if how == 'truncate':
            cuts = [1, 5, 10, len(raw) // 2, len(raw) - 8, len(raw) - 1]
            data = raw[:max(1, cuts[arg % len(cuts)])]
        elif how == 'bitflip':
            i = (arg * 7919) % max(1, len(raw))
            raw = raw or b"\0"
            data = raw[:i] + bytes([raw[i] ^ (1 << (arg % 8))]) + raw[i + 1:]
        elif how == 'notgzip':
            data = b'this is not a gzip file\n'
        elif how == 'empty':
            data = b''
        elif how == 'gzip_nonjson':
            data = gzip.compress(b'{not json')
        elif how == 'json_nonobject':
            data = gzip.compress(b'[1, 2, 3]')
        elif how == 'other_software' and doc is not None:
            doc['software'] = 'something_else'
            data = gzip.compress(json.dumps(doc).encode())
        elif how == 'newer_format' and doc is not None:
            doc['cacheFileVersion'] = 2
            data = gzip.compress(json.dumps(doc).encode())
        elif how == 'missing_key' and doc is not None:
            del doc['rootOperations']
            data = gzip.compress(json.dumps(doc).encode())
        elif how == 'bad_field' and isinstance(doc, dict):
            # valid gzip, valid JSON, right software / version / name - but one top-level entry has the wrong shape
            keys = [k for k in sorted(doc) if k not in ('software', 'cacheFileVersion', 'buildName')]
            bads = [None, 0, 'x', [['x']], {'a': 1}, [1], True]
            k = keys[arg % len(keys)]
            doc[k] = bads[(arg // len(keys)) % len(bads)]
            data = gzip.compress(json.dumps(doc).encode())
            # the library documents best-effort parsing: such a file may be refused or may be taken for a cache
            self.dubious = getattr(self, 'dubious', set()) | {hashlib.sha256(data).hexdigest()}
        elif how == 'bad_entry' and isinstance(doc, dict):
            # the right shape except for one entry that cannot be what it stands for: a created directory whose name
            # no os call accepts (NUL, lone surrogate), versions that are not an object, arguments of a recorded
            # query that are not a list (D38) - such a file has to be refused, it is not marked dubious
            def first_simple(ops):
                # (an earlier corruption of the same file may have left anything here)
                for o in (ops if isinstance(ops, list) else []):
                    if isinstance(o, dict):
                        if o.get('type') not in ('build_file', 'subbuild'):
                            return o
                        r = first_simple(o.get('suboperations'))
                        if r is not None:
                            return r
                return None
            v = arg % 6
            so = first_simple(doc.get('rootOperations'))
            for key in ('createdDirs',):
                if not isinstance(doc.get(key), list):
                    doc[key] = []
            if v == 0:
                doc['createdDirs'] = list(doc.get('createdDirs') or []) + [os.path.join(self.root, 'a\x00b')]
            elif v == 1:
                doc['createdDirs'] = [os.path.join(self.root, 'zz\ud800')] + list(doc.get('createdDirs') or [])
            elif v == 2:
                doc['funcVersions'] = [['f0a', 1]]
            elif v == 3:
                doc['operationVersions'] = 3
            elif so is not None:
                so['args'] = 'x' if v == 4 else {'a': 1}
            else:
                doc['createdDirs'] = ['\x00']
            data = gzip.compress(json.dumps(doc).encode())
        elif how == 'other_name' and doc is not None:
            doc['buildName'] = 'another build'
            data = gzip.compress(json.dumps(doc).encode())
        elif how == 'bitflip_inplace':
            # silent corruption: same inode, same size, same modification time - only a byte of the payload differs
            if len(raw) < 40:
                return              # nothing resembling a cache file is there
            st0 = os.stat(fn)
            i = 10 + (arg * 7919) % (len(raw) - 18)
            data = raw[:i] + bytes([raw[i] ^ (1 << (arg % 8))]) + raw[i + 1:]
            with open(fn, 'r+b') as f:
                f.write(data)
            os.utime(fn, ns=(st0.st_atime_ns, st0.st_mtime_ns))
            h = hashlib.sha256(data).hexdigest()
            dec = self._decode_cache(data)
            if dec is not None and dec in self.cache_docs:
                self.cache_serials.setdefault(h, self.cache_docs[dec])     # undetectable corruption
            if h not in self.cache_serials:
                self.planted[h] = 'X' + how
            return
        else:
            data = b'garbage'
        with open(fn, 'wb') as f:
            f.write(data)
        h = hashlib.sha256(data).hexdigest()
        dec = self._decode_cache(data)
        if dec is not None and dec in self.cache_docs:
            self.cache_serials.setdefault(h, self.cache_docs[dec])     # undetectable corruption
        if h not in self.cache_serials:
            self.planted[h] = 'X' + how
        self.set_mtime(fn, self.tick())

    def cache_is_dubious(self):
        fn = self.cache_file()
        if not getattr(self, 'dubious', None) or not os.path.isfile(fn):
            return False
        with open(fn, 'rb') as f:
            return hashlib.sha256(f.read()).hexdigest() in self.dubious

    def destroy(self):
        shutil.rmtree(self.top, ignore_errors=True)
