"""Lock-order check (spec/LockOrder.tla): the held-before relation of lock roles observed in all threaded
executions of a check must be acyclic and agree with the documented order."""
import json
import os
import re
import shutil
import subprocess
import tempfile

from . import tlc
from .sandbox import scratch_root

LV_RE = re.compile(r'<<"LVERDICT", "([^"]*)", "([^"]*)", (\d+)>>')


def judge(edges, same, timeout=300):
    """edges: iterable of (held role, acquired role); same: iterable of (role, inverted?).
    Returns (clause or '', detail, n_edges)."""
    work = tempfile.mkdtemp(prefix='fbv_lo_', dir=scratch_root())
    try:
        tf = os.path.join(work, 'locks.json')
        with open(tf, 'w') as f:
            json.dump({'edges': [list(e) for e in sorted(set(map(tuple, edges)))],
                       'same': [[r, bool(i)] for r, i in sorted(set(map(tuple, same)))]}, f)
        cmd = tlc.tlc_cmd('LockOrder.cfg', 'LockOrder.tla', 1, metadir=os.path.join(work, 'm'), short=True)
        p = subprocess.run(cmd, cwd=tlc.SPEC_DIR, env=dict(os.environ, TRACE_FILE=tf), stdout=subprocess.PIPE,
                           stderr=subprocess.STDOUT, text=True, timeout=timeout)
        m = LV_RE.search(p.stdout)
        if not m:
            return 'H:tlc', p.stdout[-1500:], 0
        return m.group(1), m.group(2), int(m.group(3))
    finally:
        shutil.rmtree(work, ignore_errors=True)
