"""Scenario generation on the Python side: seeded random histories and the
hash-oracle strategy (a lazily instantiated deterministic decision tree per
function, DESIGN.md 2.3).  TLC-generated behaviours (spec -> code) come from
harness/fromtlc.py; both produce the same scenario format.
"""
import hashlib
import json
import random

# default universe: directories d, d/e, g ; leaves are the only build targets
# (targets are prefix-free: no output path is a proper ancestor of another)
DIRS = [['d'], ['d', 'e'], ['g']]
LEAVES = [['x'], ['y'], ['d', 'x'], ['d', 'y'], ['d', 'e', 'z'], ['g', 'w']]
UNIVERSE = DIRS + LEAVES
CONTENTS = ['c1', 'c2', 'c3']
SIZES = [4, 6]
KINDS = ['exists', 'is_file', 'is_dir', 'list_dir', 'walk', 'get_size', 'read']


def level_of(fname):
    # "f<level><letter>"
    try:
        return int(fname[1])
    except (IndexError, ValueError):
        return 0


class H:
    """Deterministic byte stream from a key."""

    def __init__(self, *parts):
        self.d = hashlib.sha256(json.dumps(parts, sort_keys=True).encode()).digest()
        self.i = 0

    def byte(self):
        if self.i >= len(self.d):
            self.d = hashlib.sha256(self.d).digest()
            self.i = 0
        b = self.d[self.i]
        self.i += 1
        return b

    def below(self, n):
        return (self.byte() * 256 + self.byte()) % n

    def pick(self, xs):
        return xs[self.below(len(xs))]

    def chance(self, pct):
        return self.below(100) < pct


def rand_query(h, orc):
    kind = h.pick(orc.get('kinds', KINDS))
    p = h.pick(orc['qpaths'])
    q = {'s': 'q', 'kind': kind, 'p': p}
    if orc.get('mutate') and kind in ('list_dir', 'walk'):
        q['mut'] = h.chance(70)
    if kind == 'read':
        q['cmp'] = h.pick(orc.get('cmps', ['METADATA', 'HASH']))
        q['how'] = h.pick(['declare', 'binary', 'text' if orc.get('read_text') else 'declare'])
    if kind == 'walk':
        q['td'] = h.chance(50)
    if orc.get('q_spell') and h.chance(orc['q_spell']):
        q['spell'] = h.pick(SPELLS_Q)        # the same path, spelled differently
        if orc.get('q_lead2') and q['spell'] == 'dblsep' and h.i % 2 == 0:
            q['spell'] = 'lead2'             # exactly two leading slashes: normpath keeps them (D31)
    return q


def rand_call(h, orc, level):
    names = orc['fnames'].get(str(level), [])
    if not names:
        return None
    f = h.pick(names)
    args = [h.below(orc.get('nargs', 2))]
    extra = {}
    if orc.get('mutate'):
        args = [h.below(2), [1, [2, 3]], {'a': [1], 'b': {'c': [2]}}]
        extra = {'kw': {'k': [1, {'z': [2]}]}, 'mut': h.chance(60), 'mut_args': h.chance(60), 'alias': h.chance(30)}
    if h.chance(orc.get('w_bf', 60)):
        st = {'s': 'bf', 'p': h.pick(orc['targets']), 'f': f, 'args': args,
              'cmp': h.pick(orc.get('cmps', ['METADATA', 'HASH'])),
              'catch': h.chance(orc.get('catch', 70))}
    else:
        st = {'s': 'sb', 'f': f, 'args': args, 'catch': h.chance(orc.get('catch', 70))}
    st.update(extra)
    if orc.get('mut_light') and h.chance(orc['mut_light']):
        st['mut'] = True             # the caller edits the returned container in place
    if orc.get('catch_base') and st['catch'] and h.chance(orc['catch_base']):
        st['catch_base'] = True          # this caller also stops exceptions outside the Exception hierarchy
    return st


FALSY_RETURNS = [{'k': 'tuple', 'xs': []}, {'k': 'dictS', 'kv': []}, {'k': 'listS', 'xs': []}, {'k': 'intS', 'n': '0'},
                 {'k': 'strS', 's': ''}, {'k': 'tupleS', 'xs': []}, {'k': 'floatS', 'n': '0', 'r': '0.0'},
                 {'k': 'list', 'xs': []}, {'k': 'int', 'n': '0'}]


def _stamp(orc, h, st):
    """Reproducible-build style functions: the output gets a fixed modification time (one of two), so that a
    rebuilt output can have new bytes under the old size and time."""
    if orc.get('fixed_mt') and h.chance(orc['fixed_mt']):
        st['mt'] = 900 + h.below(2)
    if orc.get('link_out') and h.chance(orc['link_out']):
        st['link'] = True         # the output is created as a symbolic link to a file elsewhere (libfoo.so -> libfoo.so.1)
    return st


def oracle_stmt(orc, key, fr):
    h = H(orc['seed'], key, fr.wrote is not None)
    n = len(fr.obs)
    level = level_of(fr.f)
    maxn = orc.get('maxstmts', 4)
    wrote = fr.wrote is not None
    if fr.kind == 'bf' and not wrote and (n >= maxn - 1 or h.chance(25)):
        if n >= maxn and h.chance(orc.get('nocreate', 6)):
            return {'s': 'return'}
        if orc.get('nocreate2') and n >= maxn - 1 and h.chance(orc['nocreate2']):
            return {'s': 'return'}      # the function ends without ever trying to create its target
        return _stamp(orc, h, {'s': 'write', 'c': h.pick(orc.get('contents', CONTENTS)), 'sz': h.pick(orc.get('sizes', SIZES))})
    if n >= maxn:
        if h.chance(orc.get('raise', 10)):
            return {'s': 'raise', 'base': True} if orc.get('base_raise') and h.chance(orc['base_raise']) else {'s': 'raise'}
        if h.chance(orc.get('nonjson', 2)):
            return {'s': 'return', 'nonjson': 'empty' if orc.get('falsy_ret') and h.chance(40) else True}
        if orc.get('falsy_ret') and h.chance(orc['falsy_ret']):
            # empty / zero values that are not plain JSON values yet: they must come back normalised all the same
            return {'s': 'return', 'v': h.pick(FALSY_RETURNS)}
        return {'s': 'return', 'container': True} if orc.get('mutate') or orc.get('mut_light') else {'s': 'return'}
    if orc.get('p_probe') and h.chance(orc['p_probe']):
        return {'s': 'probe', 'paths': [h.pick(orc['qpaths']) for _ in range(3)]}
    r = h.below(100)
    if r < orc.get('w_q', 50):
        return rand_query(h, orc)
    if r < orc.get('w_q', 50) + orc.get('w_call', 30):
        c = rand_call(h, orc, level + 1)
        if c:
            return c
        return rand_query(h, orc)
    if r < 92:
        if fr.kind == 'bf' and not wrote:
            return _stamp(orc, h, {'s': 'write', 'c': h.pick(orc.get('contents', CONTENTS)), 'sz': h.pick(orc.get('sizes', SIZES))})
        if orc.get('retpool'):
            return {'s': 'return', 'v': h.pick(orc['retpool'])}
        return {'s': 'return', 'container': True} if orc.get('mutate') else {'s': 'return'}
    return {'s': 'raise'}


# ---------------------------------------------------------------------------
def rand_root(rnd, orc, nst, crash_pct=20):
    root = []
    for _ in range(nst):
        r = rnd.random()
        if r < 0.35:
            kind = rnd.choice(orc.get('kinds', KINDS))
            q = {'s': 'q', 'kind': kind, 'p': rnd.choice(orc['qpaths'])}
            if orc.get('mutate') and kind in ('list_dir', 'walk'):
                q['mut'] = rnd.random() < 0.7
            if kind == 'read':
                q['cmp'] = rnd.choice(['METADATA', 'HASH'])
                q['how'] = rnd.choice(['declare', 'text'] if orc.get('read_text') else ['declare', 'binary'])
            if kind == 'walk':
                q['td'] = rnd.random() < 0.5
            root.append(q)
        else:
            f = rnd.choice(orc['fnames']['0'])
            args = [rnd.randrange(orc.get('nargs', 2))]
            extra = {}
            if orc.get('mutate'):
                args = [rnd.randrange(2), [1, [2, 3]], {'a': [1], 'b': {'c': [2]}}]
                extra = {'kw': {'k': [1, {'z': [2]}]}, 'mut': rnd.random() < 0.6, 'mut_args': rnd.random() < 0.6}
            if rnd.random() < 0.65:
                st = {'s': 'bf', 'p': rnd.choice(orc['targets']), 'f': f, 'args': args,
                      'cmp': rnd.choice(orc.get('cmps', ['METADATA', 'HASH'])),
                      'catch': rnd.random() < 0.75}
            else:
                st = {'s': 'sb', 'f': f, 'args': args, 'catch': rnd.random() < 0.75}
            st.update(extra)
            root.append(st)
    if rnd.randrange(100) < crash_pct:
        k = rnd.randrange(len(root) + 1)
        root = root[:k] + [{'s': 'raise'}]
    else:
        root.append({'s': 'return'})
    return root


def rand_ext(rnd, orc, cache):
    r = rnd.random()
    paths = orc.get('extpaths') or orc['qpaths']
    p = rnd.choice(paths)
    if r < 0.40:
        st = {'op': 'ext', 'do': 'write', 'p': p, 'c': rnd.choice(CONTENTS + ['c7']), 'sz': rnd.choice(SIZES)}
        if orc.get('ext_links'):
            # inputs reached through symbolic links: created as a link, or (if the path is one) changed through it
            r2 = rnd.random() * 100
            if r2 < orc['ext_links']:
                st['link'] = True
            elif r2 < 2.5 * orc['ext_links']:
                st['through'] = True
        return st
    if r < 0.60:
        return {'op': 'ext', 'do': 'delete', 'p': p}
    if r < 0.70:
        return {'op': 'ext', 'do': 'mkdir', 'p': p}
    if r < 0.78:
        return {'op': 'ext', 'do': 'rmdir', 'p': p}
    if r < 0.88:
        return {'op': 'ext', 'do': 'touch', 'p': p}
    if r < 0.96:
        return {'op': 'ext', 'do': 'rewrite_keep_meta', 'p': p, 'c': rnd.choice(CONTENTS + ['c7'])}
    return {'op': 'ext', 'do': 'delete', 'p': cache}


FOREIGN = [['fz'], ['d', 'fz'], ['d', 'e', 'fz'], ['g', 'fz']]
LONGT = [['LONG', 'x'], ['d', 'LONG', 'y'], ['g', 'h', 'LONG', 'w'], ['d', 'LONG'], ['g', 'h', 'LONG']]

PROFILES = {
    # name: parameters (see make_scenario)
    'general': {},
    'crash': {'p_crash': 0.6, 'builds': [2, 3, 3], 'p_uncaught': 0.5, 'p_clean': 0.05, 'p_base': 0.3, 'base_raise': 25},
    'foreign': {'foreign': True, 'p_crash': 0.3, 'p_clean': 0.3, 'ext': [1, 2, 3, 4]},
    'probe': {'p_probe': 0.5, 'p_crash': 0.05, 'raise': 25, 'q_spell': 30, 'q_lead2': True},
    'rebuild': {'link_out': 15, 'ext_links': 25, 'p_same_root': 1.0, 'p_crash': 0.0, 'ext': [0, 0, 0, 1], 'builds': [3, 4], 'p_clean': 0.0,
                'p_vers': 0.0},
    'versions': {'p_same_root': 0.9, 'p_crash': 0.0, 'ext': [0, 0, 0, 1], 'builds': [3, 4], 'p_clean': 0.0,
                 'p_vers': 0.8, 'maxstmts': [3, 4, 5], 'mut_light': 40},
    'bfcontract': {'long': True, 'p_probe': 0.4, 'raise': 30, 'nocreate': 25, 'nocreate2': 18, 'nonjson': 10, 'falsy_ret': 15,
                   'p_crash': 0.1},
    # foreign files at build targets + external removal of directory trees + failing builds
    'forcrash': {'structured': True, 'foreign': True, 'foreign_at_targets': True, 'p_crash': 0.6, 'p_clean': 0.1,
                 'ext': [1, 2, 3], 'p_rmtree': 0.35, 'p_same_root': 0.85},
    'clean': {'p_clean': 0.6, 'p_double_clean': 0.5, 'p_crash': 0.15, 'foreign': True},
    'cmp': {'link_out': 15, 'ext_links': 25, 'p_same_root': 0.9, 'ext_meta': True, 'ext': [1, 1, 2], 'p_crash': 0.0, 'p_clean': 0.0,
            'w_read': True, 'builds': [3, 4], 'fixed_mt': 35},
    # read-back of outputs inside the subtree that built them, both modes, tampering of outputs
    'cmpback': {'link_out': 15, 'ext_links': 25, 'p_same_root': 0.95, 'ext_meta': True, 'ext_leaves': True, 'ext': [1, 1, 2], 'p_crash': 0.0,
                'p_clean': 0.0, 'w_read': True, 'q_leaves': True, 'builds': [3, 4], 'raise': 4, 'nocreate': 0,
                'nonjson': 0, 'maxstmts': [3, 4, 5], 'fixed_mt': 35, 'sizes': [4]},
    # in-place mutation of every value that crosses the API (C11), then unchanged rebuilds
    'mutate': {'mutate': True, 'p_same_root': 1.0, 'p_crash': 0.0, 'ext': [0, 0, 0, 1], 'builds': [3, 4],
               'p_clean': 0.0, 'p_vers': 0.0, 'raise': 8, 'kinds': ['list_dir', 'walk', 'list_dir', 'is_file', 'read']},
    'refuse': {'refuse': True},
    'keys': {'keys': True},
    'nested': {'nested': True},
    # nested build_file calls below the enclosing function's own in-progress target
    'selfnest': {'selfnest': True},
    # base histories for fault injection in which the program retries / falls back after a caught library error
    'faultretry': {'faultretry': True},
    # more than 128 outputs rebuilt by a failing build (backup store beyond one directory)
    'bulk': {'bulk': True},
    # inputs / outputs of 33-65 MiB compared by HASH
    'bigfile': {'bigfile': True},
    # base history for a fault at the creation of a directory of the backup store (slots 128-171 share one with a later slot)
    'bulkfault': {'bulk': True, 'bulk_n': [300]},
    'swap': {'swap': True},
    # the cache file lives in a directory of its own that the build has to create (C12, C01, C02)
    'subcache': {'subcache': True, 'p_clean': 0.35, 'p_crash': 0.25, 'p_double_clean': 0.3},
    # ... and the build asks about those directories, lists the root, and builds outputs inside them (D30)
    'subcacheq': {'subcache': True, 'cache_q': True, 'p_clean': 0.2, 'p_crash': 0.2, 'builds': [3, 3, 4], 'p_same_root': 0.85},
    'threads': {'threads': True},
    'straggler': {'straggler': True},
    # C17: calls on builders whose function has ended (sequentially: inside later code of the build and after build returns)
    'stale': {'stale': True, 'p_crash': 0.2, 'p_clean': 0.1, 'raise': 20, 'builds': [2, 3], 'base_raise': 35, 'catch_base': 80},
    'threaddup': {'threads': True, 'p_dup': 0.85},
    # threads that rebuild existing outputs (each moves an old output aside), often followed by a rollback
    'threadsrb': {'threads_rb': True},
    'threadsswap': {'threads_swap': True},
    'linkstale': {'linkstale': True},
    'threadsqdep': {'threads_qdep': True},
    # the same histories with a yield point at every executed line of the library's small shared data structures
    'threadsrbl': {'threads_rb': True, 'line_trace': ['file_backups.py', 'build_dirs.py', 'cache.py']},
    'threadsfl': {'threads_rb': True, 'line_trace': ['file_backups.py', 'build_dirs.py', 'cache.py'], 'rb_foreign': True},
    # threads that also issue queries (on paths whose answers cannot depend on the other threads)
    'threadsq': {'threads_q': True},
    # base histories for fault injection (every eligible library call is a fault point)
    'fault': {'p_crash': 0.1, 'p_clean': 0.1, 'raise': 10, 'ext': [0, 1, 1, 2], 'builds': [2, 3],
              'catch': 80},
    # persistence (C16): exotic return values / names / versions, caught failures, unchanged rebuilds
    'persist': {'exotic': True, 'p_same_root': 1.0, 'p_crash': 0.05, 'ext': [0, 0, 0, 1], 'builds': [2, 3],
                'p_clean': 0.1, 'p_vers': 0.4, 'raise': 20, 'maxstmts': [2, 3, 4], 'exotic_vers': True},
    # duplicates: few targets / keys so that the same path or key is requested again - directly,
    # nested, after a cached subtree was reused, after the first occurrence failed
    'dup': {'dup': True, 'p_same_root': 0.8, 'p_crash': 0.05, 'ext': [0, 0, 1], 'builds': [3, 4],
            'p_clean': 0.0, 'p_vers': 0.1, 'raise': 25, 'maxstmts': [3, 4, 5], 'root_len': [3, 6]},
    # stable programs with caught failures, rebuilt and then cleaned
    'rebuildclean': {'p_same_root': 1.0, 'p_crash': 0.0, 'ext': [0, 0, 0, 1], 'builds': [2, 3], 'p_clean': 0.0,
                     'p_vers': 0.0, 'raise': 30, 'final_clean': True, 'maxstmts': [3, 4, 5]},
}

VERSION_TERMS = [
    {'k': 'int', 'n': '1'}, {'k': 'float', 'n': '1', 'r': '1.0'}, {'k': 'int', 'n': '2'},
    {'k': 'bool', 'b': True}, {'k': 'none'}, {'k': 'str', 's': '1'},
    {'k': 'dict', 'kv': [[{'k': 'str', 's': 'a'}, {'k': 'int', 'n': '1'}], [{'k': 'str', 's': 'b'}, {'k': 'int', 'n': '2'}]]},
    {'k': 'dict', 'kv': [[{'k': 'str', 's': 'b'}, {'k': 'int', 'n': '2'}], [{'k': 'str', 's': 'a'}, {'k': 'float', 'n': '1', 'r': '1.0'}]]},
    {'k': 'list', 'xs': [{'k': 'int', 'n': '1'}]}, {'k': 'tuple', 'xs': [{'k': 'float', 'n': '1', 'r': '1.0'}]},
    # falsy but not None
    {'k': 'int', 'n': '0'}, {'k': 'float', 'n': '0', 'r': '0.0'}, {'k': 'bool', 'b': False}, {'k': 'str', 's': ''},
    {'k': 'list', 'xs': []}, {'k': 'dict', 'kv': []}, {'k': 'float', 'n': '0', 'r': '-0.0'},
    # objects that differ only by additional keys (at the top and one level down), lists by an additional element
    {'k': 'dict', 'kv': [[{'k': 'str', 's': 'a'}, {'k': 'int', 'n': '1'}]]},
    {'k': 'dict', 'kv': [[{'k': 'str', 's': 'a'}, {'k': 'int', 'n': '1'}], [{'k': 'str', 's': 'b'}, {'k': 'int', 'n': '2'}],
                         [{'k': 'str', 's': 'c'}, {'k': 'none'}]]},
    {'k': 'dict', 'kv': [[{'k': 'str', 's': 'o'}, {'k': 'dict', 'kv': [[{'k': 'str', 's': 'x'}, {'k': 'int', 'n': '1'}]]}]]},
    {'k': 'dict', 'kv': [[{'k': 'str', 's': 'o'}, {'k': 'dict', 'kv': [[{'k': 'str', 's': 'x'}, {'k': 'int', 'n': '1'}],
                                                                     [{'k': 'str', 's': 'y'}, {'k': 'int', 'n': '2'}]]}]]},
    {'k': 'list', 'xs': [{'k': 'int', 'n': '1'}, {'k': 'int', 'n': '2'}]},
]


def make_structured(seed, profile):
    """Template histories that combine: foreign directories/files present before the first
    build, outputs in nested created directories, external removal / replacement of
    directory trees between builds, a failing build that overwrites foreign files."""
    rnd = random.Random('struct:%s:%s' % (profile, seed))
    orc = {'seed': seed, 'qpaths': UNIVERSE + FOREIGN, 'targets': LEAVES,
           'fnames': {'0': ['f0a', 'f0b'], '1': ['f1a'], '2': []}, 'maxstmts': rnd.choice([1, 2, 3]),
           'nargs': 1, 'raise': 5, 'nocreate': 0, 'nonjson': 0, 'w_call': 15}
    steps = []
    pre = [{'op': 'ext', 'do': 'mkdir', 'p': ['d']}, {'op': 'ext', 'do': 'write', 'p': ['d', 'fz'], 'c': 'c8', 'sz': 4},
           {'op': 'ext', 'do': 'mkdir', 'p': ['g']}, {'op': 'ext', 'do': 'write', 'p': ['x'], 'c': 'c9', 'sz': 4},
           {'op': 'ext', 'do': 'write', 'p': ['y'], 'c': 'c9', 'sz': 6}, {'op': 'ext', 'do': 'write', 'p': ['g', 'w'], 'c': 'c8', 'sz': 6},
           {'op': 'ext', 'do': 'mkdir', 'p': ['d', 'e']}]
    steps += [st for st in pre if rnd.random() < 0.45]

    def root(n, crash):
        ts = rnd.sample(LEAVES, n)
        r = [{'s': 'bf', 'p': t, 'f': rnd.choice(['f0a', 'f0b']), 'args': [0],
              'cmp': rnd.choice(['METADATA', 'HASH']), 'catch': rnd.random() < 0.8} for t in ts]
        r.append({'s': 'raise'} if crash else {'s': 'return'})
        return r
    r1 = root(rnd.randrange(1, 4), False)
    steps.append({'op': 'build', 'name': 'B', 'vers': {}, 'root': r1})
    mids = [[], [{'op': 'ext', 'do': 'delete', 'p': ['d']}],
            [{'op': 'ext', 'do': 'delete', 'p': ['d']}, {'op': 'ext', 'do': 'write', 'p': ['d'], 'c': 'c7', 'sz': 4}],
            [{'op': 'ext', 'do': 'delete', 'p': ['g']}], [{'op': 'ext', 'do': 'delete', 'p': ['d', 'e']}],
            [{'op': 'ext', 'do': 'delete', 'p': ['d', 'e']}, {'op': 'ext', 'do': 'write', 'p': ['d', 'e'], 'c': 'c7', 'sz': 4}],
            [{'op': 'ext', 'do': 'delete', 'p': ['g']}, {'op': 'ext', 'do': 'write', 'p': ['g'], 'c': 'c7', 'sz': 6}]]
    steps += rnd.choice(mids)
    for t in rnd.sample(LEAVES, rnd.randrange(0, 3)):
        if rnd.random() < 0.6:
            steps.append({'op': 'ext', 'do': 'write', 'p': t, 'c': 'c9', 'sz': rnd.choice(SIZES)})
    r2 = root(rnd.randrange(1, 4), rnd.random() < 0.7) if rnd.random() < 0.6 else r1[:-1] + [{'s': 'raise'}]
    steps.append({'op': 'build', 'name': 'B', 'vers': {}, 'root': r2})
    if rnd.random() < 0.3:
        steps += rnd.choice(mids)
    steps.append({'op': 'build', 'name': 'B', 'vers': {}, 'root': r2[:-1] + [{'s': 'return'}]})
    if rnd.random() < 0.4:
        steps.append({'op': 'clean', 'name': 'B'})
    return {'id': '%s-s%d' % (profile, seed), 'cache': ['k'], 'universe': UNIVERSE + FOREIGN, 'oracle': orc,
            'steps': steps}


# exotic JSON values (C16): unicode incl. non-BMP and a lone surrogate, big integers, float corner
# cases, deep nesting, non-string dictionary keys (stringified on the way in), tuples, empties
def _T(v):
    from . import terms
    return terms.to_term(v)


def exotic_pool():
    deep = []
    cur = deep
    for _ in range(12):
        nxt = []
        cur.append({'n': nxt})
        cur = nxt
    vals = ['', 'plain', 'caf\u00e9 \u4e2d\u6587', '\U0001F600 emoji', 'lone \ud800 surrogate', 'quote " back\\slash \n newline \x00 nul',
            0, -1, 2 ** 31, 2 ** 63, -2 ** 63 - 1, 10 ** 40, 1.0, -0.0, 0.1, 1e308, 5e-324, float('inf'), -float('inf'),
            True, False, None, [], {}, [[]], [1, 1.0, True, '1', None], (1, (2, [3])),
            {'a': 1, 'b': {'c': [1, 2, {'d': None}]}}, {1: 'int key', 2.5: 'float key', True: 'bool key', None: 'none key'},
            {'1': 'a', 1: 'b'}, {'z': 1, 'a': 2, 'm': 3}, deep, ['x' * 300], {'k' * 100: 'long key'}]
    return [_T(v) for v in vals]


EXO_DIRS = [['d d'], ['d d', '\u00e9t\u00e9'], ['.hid']]
EXO_LEAVES = [['x y'], ['.dot'], ['d d', 'f\u00fcr.txt'], ['d d', '\u00e9t\u00e9', 'z' * 200], ['.hid', '\u4e2d\u6587'],
              ['d d', '\u00e9t\u00e9', '-dash'],
              ['k.tmp'], ['k.new']]      # outputs named like the cache file plus a suffix

CORRUPT = ['truncate', 'bitflip', 'notgzip', 'empty', 'gzip_nonjson', 'json_nonobject', 'other_software',
           'newer_format', 'missing_key', 'dir', 'bitflip_inplace', 'bitflip_inplace', 'bad_field', 'bad_field', 'bad_field',
           'bad_entry', 'bad_entry']


def make_refuse(seed, profile):
    """Histories around refused calls (C15): wrong argument types, build name mismatch, unreadable /
    truncated / non-gzip / non-JSON / foreign / newer-format cache files, cache path is a directory."""
    rnd = random.Random('refuse:%s' % seed)
    base = make_scenario(seed * 2, 'general')      # even seed -> never recurses into make_refuse
    steps = []
    builds_seen = 0
    for st in base['steps']:
        steps.append(st)
        if st['op'] == 'build':
            builds_seen += 1
            if rnd.random() < 0.7:
                for _ in range(rnd.choice([0, 0, 1, 2])):
                    steps.append(rnd.choice([{'op': 'ext', 'do': 'delete', 'p': rnd.choice(DIRS)},
                                             {'op': 'ext', 'do': 'delete', 'p': rnd.choice(LEAVES)},
                                             {'op': 'ext', 'do': 'write', 'p': rnd.choice(LEAVES), 'c': 'c8', 'sz': 4}]))
                kind = rnd.random()
                call = rnd.choice(['build', 'build', 'clean'])
                if kind < 0.3:
                    bad = rnd.choice(['name_type', 'func_type', 'versions_type', 'versions_nonjson', 'cache_type',
                                      'name_none'] if call == 'build' else ['name_type', 'cache_type'])
                    steps.append({'op': call, 'name': 'B', 'vers': st.get('vers', {}), 'root': st.get('root', []),
                                  'bad': bad})
                elif kind < 0.45:
                    # a different build name - the empty string and a case variant are names like any other
                    steps.append({'op': call, 'name': rnd.choice(['OTHER', 'OTHER', '', 'b']), 'vers': st.get('vers', {}),
                                  'root': st.get('root', [])})
                else:
                    how = rnd.choice(CORRUPT)
                    if rnd.random() < 0.4:
                        # the cache file is read (and found to belong to another build) right before it is damaged
                        steps.append({'op': rnd.choice(['build', 'clean']), 'name': 'OTHER', 'vers': st.get('vers', {}),
                                      'root': st.get('root', [])})
                    steps.append({'op': 'ext', 'do': 'corrupt_cache', 'p': ['k'], 'how': how,
                                  'arg': rnd.randrange(64)})
                    for _ in range(rnd.choice([1, 1, 2])):
                        c2 = rnd.choice(['build', 'clean'])
                        steps.append({'op': c2, 'name': 'B', 'vers': st.get('vers', {}), 'root': st.get('root', []),
                                      'noname': c2 == 'clean' and rnd.random() < 0.3})
                    if rnd.random() < 0.7:
                        steps.append({'op': 'ext', 'do': 'delete', 'p': ['k']})
                if rnd.random() < 0.3:
                    steps.append({'op': 'clean', 'name': 'B', 'noname': True})
    base['steps'] = steps
    base['id'] = '%s-%d' % (profile, seed)
    return base


KEY_POOL = [None, True, False, 0, 1, 1.0, 2, '1', 'a', '', [], {}, [1], (1,), [1.0], [True], [1, 2], [2, 1], (1, 2),
            {'a': 1}, {'a': 1.0}, {'a': True}, {'a': None}, {'b': None}, {'a': 1, 'b': 2}, {'b': 2, 'a': 1},
            {'a': 1, 'b': None}, {1: 'x'}, {'1': 'x'}, {1.0: 'x'}, {True: 'x'}, {'true': 'x'}, {None: 'x'}, {'null': 'x'},
            [[1], {'a': (1,)}], [(1,), {'a': [1]}], [[1.0], {'a': [True]}], {'a': {'b': [1, {'c': None}]}},
            {'a': {'b': [1, {'c': None, 'd': None}]}}, 2 ** 63, float(2 ** 63), 'é', [None], [[]],
            # one-entry objects keyed by the words a tagged encoding might use, next to the values they could be
            # mistaken for
            {'bool': 1}, {'bool': 0}, {'bool': True}, {'int': 1}, {'float': 1.0}, {'str': '1'}, {'list': [1]},
            {'null': None}, {'none': None}, ['bool', True], ['bool', 1], {'tuple': [1]}, {'dict': {}}]
SPELLS = [None, 'bytes', 'pathlike', 'rel', 'dblsep', 'dotdot', 'dot']
SPELLS_Q = ['bytes', 'pathlike', 'rel', 'dblsep', 'dotdot', 'dot', 'dotdot', 'dblsep']


def _mutated(v, depth=0):
    """What interp.mutate_in_place turns (the JSON round trip of) v into."""
    if isinstance(v, (list, tuple)):
        return [(_mutated(x, depth + 1) if depth < 3 else x) for x in v] + ['MUT']
    if isinstance(v, dict):
        d = {k: (_mutated(x, depth + 1) if depth < 3 else x) for k, x in v.items()}
        d['MUT'] = 1
        return d
    return v


def make_keys(seed, profile):
    """Pairs of calls whose identity is (un)equal as JSON values / path spellings (C07): the second call is
    issued in the same build (duplicate <=> same key) or in the next build (cache hit <=> same key)."""
    rnd = random.Random('keys:%s' % seed)
    v = rnd.choice(KEY_POOL)
    w = rnd.choice([v, v, rnd.choice(KEY_POOL), rnd.choice(KEY_POOL)])
    shape = rnd.choice(['args', 'kw', 'kwextra', 'both', 'nested', 'poskw', 'mutkey', 'subkey', 'tagpair'])
    if shape == 'args':
        c1, c2 = {'args': [v]}, {'args': [w]}
    elif shape == 'kw':
        c1, c2 = {'args': [], 'kw': {'k': v}}, {'args': [], 'kw': {'k': w}}
    elif shape == 'kwextra':
        c1, c2 = {'args': [v], 'kw': {'k': w}}, {'args': [v], 'kw': {'k': w, 'j': rnd.choice([None, 0, False])}}
        if rnd.random() < 0.5:
            c1, c2 = c2, c1
    elif shape == 'both':
        c1, c2 = {'args': [v, w], 'kw': {'k': v}}, {'args': [v, w], 'kw': {'k': v}}
    elif shape == 'tagpair':
        # a value and the one-entry object / pair a tagged encoding of it might look like: different keys
        v, w = rnd.choice([(True, {'bool': 1}), (False, {'bool': 0}), (True, {'bool': True}), (1, {'int': 1}),
                           (1.0, {'float': 1.0}), ('1', {'str': '1'}), ([1], {'list': [1]}), (None, {'null': None}),
                           (None, {'none': None}), (True, ['bool', True]), ((1,), {'tuple': [1]}), ({}, {'dict': {}}),
                           (False, {'bool': 0.0}), (True, {'bool': 1.0})])
        c1, c2 = {'args': [v]}, {'args': [w]}
        if rnd.random() < 0.3:
            c1, c2 = {'args': [[v, 'x']]}, {'args': [[w, 'x']]}
        if rnd.random() < 0.5:
            c1, c2 = c2, c1
    elif shape == 'subkey':
        # dictionary keys / values that are instances of int / float / str subclasses with a repr of their own
        # (IntEnum members and the like): the same key as the plain value and as its JSON string form
        kt = rnd.choice([{'k': 'intS', 'n': '1'}, {'k': 'floatS', 'n': '1', 'r': '1.0'}, {'k': 'intS', 'n': '0'},
                         {'k': 'strS', 's': '1'}])
        plain = {'intS': 1, 'floatS': 1.0, 'strS': '1'}[kt['k']] if kt.get('n', '1') == '1' or kt['k'] == 'strS' else 0
        d_t = {'k': 'dict', 'kv': [[kt, {'k': 'str', 's': 'x'}]]}
        c1 = {'args_t': [d_t], 'args': ['<subkey>']}
        c2 = {'args': [rnd.choice([{plain: 'x'}, {str(plain) if not isinstance(plain, float) else '1.0': 'x'}, {plain: 'x'}])]}
        if rnd.random() < 0.3:      # ... or as a value in a list
            c1 = {'args_t': [{'k': 'list', 'xs': [kt]}], 'args': ['<subval>']}
            c2 = {'args': [[plain]]}
        if rnd.random() < 0.5:
            c1, c2 = c2, c1
    elif shape == 'mutkey':
        # the second call passes what the first call's function turned its (copy of the) argument into: still another key
        v = rnd.choice([[1], {'a': 1}, [[1], {'a': (1,)}], {'a': {'b': [1, {'c': None}]}}, [], {}, [1, 2]])
        c1, c2 = {'args': [], 'kw': {'k': v}}, {'args': [], 'kw': {'k': _mutated(v)}}
        if rnd.random() < 0.4:
            c1, c2 = {'args': [v]}, {'args': [_mutated(v)]}
    elif shape == 'poskw':       # the same items once as a trailing positional dict, once as keyword arguments
        lead = rnd.choice([[], [v], [v, 1]])
        c1, c2 = {'args': lead + [{'k': w}]}, {'args': list(lead), 'kw': {'k': w}}
        if rnd.random() < 0.5:
            c1, c2 = c2, c1
    else:
        c1, c2 = {'args': [[v, {'n': w}]]}, {'args': [(v, {'n': w})]}
    kind = rnd.choice(['sb', 'bf', 'bf']) if shape != 'tagpair' else rnd.choice(['sb', 'sb', 'bf'])
    f1 = 'f0a'
    f2 = rnd.choice(['f0a', 'f0a', 'f0a', 'f0b'])
    prog = {'f0a': [{'s': 'write', 'c': 'c1', 'sz': 4}, {'s': 'return'}],
            'f0b': [{'s': 'write', 'c': 'c1', 'sz': 4}, {'s': 'return'}]}
    t = rnd.choice(LEAVES)

    mut = rnd.random() < 0.35 or shape == 'mutkey'    # the functions edit the containers they receive in place: identity is unaffected

    def call(c, f, spell=None):
        st = {'s': kind, 'f': f, 'catch': True}
        st.update(c)
        if mut:
            st['mut_args'] = True
        if kind == 'bf':
            st['p'] = t
            st['cmp'] = 'HASH'
            if spell:
                st['spell'] = 'lead2' if spell == 'dblsep' and seed % 2 == 0 else spell
        return st
    steps = []
    mode = rnd.choice(['same', 'next', 'next', 'both'])
    if kind == 'bf' and rnd.random() < 0.12:
        # relative spellings under a changing working directory: the same string names different files
        a, b = ['x'], ['d', 'x']

        def rel(p, f):
            return {'s': 'bf', 'p': p, 'f': f, 'catch': True, 'cmp': 'HASH', 'spell': 'rel', 'args': [1]}
        steps = [{'op': 'ext', 'do': 'mkdir', 'p': ['d']}, {'op': 'chdir', 'p': []},
                 {'op': 'build', 'name': 'B', 'vers': {}, 'root': [rel(a, 'f0a'), {'s': 'return'}]},
                 {'op': 'chdir', 'p': ['d']},
                 {'op': 'build', 'name': 'B', 'vers': {}, 'root': [rel(b, 'f0a'), rel(a, 'f0a'), {'s': 'return'}]},
                 {'op': 'chdir', 'p': []},
                 {'op': 'build', 'name': 'B', 'vers': {}, 'root': [rel(a, 'f0a'), rel(b, 'f0a'), {'s': 'return'}]}]
        return {'id': '%s-%d' % (profile, seed), 'cache': ['k'], 'universe': UNIVERSE, 'prog': prog, 'steps': steps}
    if mode == 'same':
        steps.append({'op': 'build', 'name': 'B', 'vers': {}, 'root': [call(c1, f1), call(c2, f2, rnd.choice(SPELLS)),
                                                                      {'s': 'return'}]})
        steps.append({'op': 'build', 'name': 'B', 'vers': {}, 'root': [call(c2, f2, rnd.choice(SPELLS)), {'s': 'return'}]})
    elif mode == 'next':
        steps.append({'op': 'build', 'name': 'B', 'vers': {}, 'root': [call(c1, f1, rnd.choice(SPELLS)), {'s': 'return'}]})
        steps.append({'op': 'build', 'name': 'B', 'vers': {}, 'root': [call(c2, f2, rnd.choice(SPELLS)), {'s': 'return'}]})
        steps.append({'op': 'build', 'name': 'B', 'vers': {}, 'root': [call(c1, f1, rnd.choice(SPELLS)), {'s': 'return'}]})
    else:
        steps.append({'op': 'build', 'name': 'B', 'vers': {}, 'root': [call(c1, f1), {'s': 'return'}]})
        steps.append({'op': 'build', 'name': 'B', 'vers': {}, 'root': [call(c2, f2, rnd.choice(SPELLS)), call(c1, f1),
                                                                      {'s': 'return'}]})
    return {'id': '%s-%d' % (profile, seed), 'cache': ['k'], 'universe': UNIVERSE, 'prog': prog, 'steps': steps}


W_ = [{'s': 'write', 'c': 'c1', 'sz': 4}, {'s': 'return'}]
R_ = [{'s': 'write', 'c': 'c2', 'sz': 4}, {'s': 'raise'}]
THREAD_PROGS = {
    'fW': W_, 'fW2': W_, 'fR': R_,
    'fS': [{'s': 'return'}], 'fSR': [{'s': 'raise'}],
    # nested calls on private targets below the shared directory
    'fN1': [{'s': 'bf', 'p': ['n', 'm', 'g1'], 'f': 'fW', 'args': [0], 'catch': True}, {'s': 'write', 'c': 'c3', 'sz': 4}, {'s': 'return'}],
    'fN2': [{'s': 'bf', 'p': ['n', 'o', 'g2'], 'f': 'fR', 'args': [0], 'catch': True}, {'s': 'write', 'c': 'c3', 'sz': 6}, {'s': 'return'}],
    'fSN': [{'s': 'bf', 'p': ['n', 'm', 'g3'], 'f': 'fW', 'args': [0], 'catch': True}, {'s': 'sb', 'f': 'fS', 'args': [7], 'catch': True}, {'s': 'return'}],
}
THREAD_TARGETS = [['n', 'f1'], ['n', 'f2'], ['n', 'm', 'f3'], ['n', 'm', 'f4'], ['x1'], ['q', 'r', 's', 'f5'], ['q', 'r', 'f6']]


def make_threads(seed, profile):
    """Concurrent use of one builder (C09, C08, C17): a root function that issues 2-3 independent
    build_file / subbuild calls from cooperative threads (statement `par`), in new, shared, stale
    or nested directories, with failing functions and duplicates; then an unchanged rebuild and a
    clean, all judged against the sequential contract."""
    rnd = random.Random('threads:%s' % seed)
    if PROFILES[profile].get('p_dup', 0) > 0.5 and rnd.random() < 0.2:
        # C08: the duplicate is implied by a cached subtree - one thread asks for a recorded subbuild / build_file
        # whose record contains X, the other asks for X itself; both could be served from the cache
        X = rnd.choice(THREAD_TARGETS)
        progs = dict(THREAD_PROGS)
        inner = {'s': 'bf', 'p': X, 'f': 'fW', 'args': [5], 'cmp': rnd.choice(['METADATA', 'HASH']), 'catch': True}
        progs['sX'] = [dict(inner), {'s': 'return'}]
        progs['bX'] = [dict(inner), {'s': 'write', 'c': 'c2', 'sz': 4}, {'s': 'return'}]
        outer = rnd.choice([{'s': 'sb', 'f': 'sX', 'args': [1]}, {'s': 'bf', 'p': ['ox'], 'f': 'bX', 'args': [1], 'cmp': 'HASH'}])
        direct = {k: v for k, v in inner.items() if k != 'catch'}
        if seed % 3 == 0:
            # the recorded nested call had *raised* (and was caught): applying the record moves a regular file at X
            # aside - which must not be the output another thread has just built there (D37)
            inner['f'] = 'fR'
            progs['sX'] = [dict(inner), {'s': 'return'}]
            progs['bX'] = [dict(inner), {'s': 'write', 'c': 'c2', 'sz': 4}, {'s': 'return'}]
            direct = dict(direct, f='fW', args=[6])
        par = {'s': 'par', 'branches': [dict(outer), direct] if rnd.random() < 0.5 else [direct, dict(outer)], 'preempt': []}
        # (the record stays valid, so the outer call is served - or rejected - as one step; an outer call that
        # *executes* while the other thread claims X cannot be placed in a sequential order of whole calls)
        steps = [{'op': 'build', 'name': 'B', 'vers': {}, 'root': [dict(outer, catch=True), {'s': 'return'}]}]
        steps.append({'op': 'build', 'name': 'B', 'vers': {}, 'root': [par, {'s': 'return'}]})
        seq = [dict(outer, catch=True), dict(direct, catch=True)]
        steps.append({'op': 'build', 'name': 'B', 'vers': {}, 'root': (seq if rnd.random() < 0.5 else seq[::-1]) + [{'s': 'return'}]})
        if rnd.random() < 0.6:
            steps.append({'op': 'clean', 'name': 'B'})
        return {'id': '%s-%d' % (profile, seed), 'cache': ['k'], 'universe': [], 'threads': True, 'prog': progs,
                'steps': steps, 'combo': True}
    nb = rnd.choice([2, 2, 3])
    branches = []
    targets = rnd.sample(THREAD_TARGETS, nb)
    dup = rnd.random() < PROFILES[profile].get('p_dup', 0.2)
    for i in range(nb):
        if rnd.random() < 0.75:
            f = rnd.choice(['fW', 'fW', 'fW2', 'fR', 'fN1', 'fN2'])
            if f in ('fN1', 'fN2') and any(b.get('f') == f for b in branches):
                f = 'fW'
            t = targets[i]
            if dup and i == 1 and branches[0]['s'] == 'bf':
                t = branches[0]['p']
                f = rnd.choice([branches[0]['f'], 'fW2'])
            branches.append({'s': 'bf', 'p': t, 'f': f, 'args': [i], 'cmp': rnd.choice(['METADATA', 'HASH'])})
        else:
            f = rnd.choice(['fS', 'fSR', 'fSN'])
            if f == 'fSN' and any(b.get('f') == 'fSN' for b in branches):
                f = 'fS'
            a = [i]
            if dup and i == 1 and branches[0]['s'] == 'sb':
                f, a = branches[0]['f'], branches[0]['args']
            branches.append({'s': 'sb', 'f': f, 'args': a})
    combo = False
    kf_family = None
    oldfile = None
    if rnd.random() < 0.3:
        # canonical race shape: a failing and a succeeding output that share a new (or stale) directory chain
        combo = True
        d = rnd.choice([['n'], ['n', 'm'], ['q', 'r']])
        fa, fb = rnd.choice([('fR', 'fW'), ('fW', 'fR'), ('fR', 'fR'), ('fN2', 'fW')])
        branches = [{'s': 'bf', 'p': d + ['a1'], 'f': fa, 'args': [0], 'cmp': 'METADATA'},
                    {'s': 'bf', 'p': (d if rnd.random() < 0.6 else d + ['s']) + ['b1'], 'f': fb, 'args': [1], 'cmp': 'HASH'}]
        oldfile = None
        if rnd.random() < 0.25:
            # the shared directory's path held an *output file* of the previous build: whoever comes first moves
            # it aside and makes the directory
            oldfile = list(d)
        if rnd.random() < 0.3:
            # one call fails while it creates its directories (an over-long component below the shared new
            # directory: the directories it did create are taken back), the sibling needs the shared directory
            branches[0]['p'] = d + ['LONG', 'a1']
            kf_family = 'KF-partial-mkdir-race'
    par = {'s': 'par', 'branches': branches, 'preempt': []}
    steps = []
    for _ in range(rnd.choice([0, 0, 1, 2])):
        steps.append(rnd.choice([
            {'op': 'ext', 'do': 'mkdir', 'p': ['n']}, {'op': 'ext', 'do': 'write', 'p': ['n', 'fz'], 'c': 'c9', 'sz': 4},
            {'op': 'ext', 'do': 'write', 'p': ['n', 'f1'], 'c': 'c8', 'sz': 4}, {'op': 'ext', 'do': 'mkdir', 'p': ['q']},
            {'op': 'ext', 'do': 'mkdir', 'p': ['n', 'm', 'f3']}]))
    pre_seq = rnd.random() < 0.4
    if combo and oldfile:
        pre_seq = False
        steps.append({'op': 'build', 'name': 'B', 'vers': {}, 'root': [
            {'s': 'bf', 'p': oldfile, 'f': 'fW', 'args': [7], 'cmp': 'HASH'}, {'s': 'return'}]})
    if pre_seq:      # a sequential first build of the same calls: the threads then meet stale outputs / dirs
        steps.append({'op': 'build', 'name': 'B', 'vers': {}, 'root': [dict(b, catch=True) for b in branches] + [{'s': 'return'}]})
        for _ in range(rnd.choice([0, 1, 1, 2])):
            b = rnd.choice(branches)
            bp = b.get('p', ['n', 'f1'])
            bp = ['n', 'f1'] if 'LONG' in bp else bp
            steps.append(rnd.choice([
                {'op': 'ext', 'do': 'delete', 'p': bp},
                {'op': 'ext', 'do': 'write', 'p': bp, 'c': 'c7', 'sz': 6},
                {'op': 'ext', 'do': 'write', 'p': ['n', 'fz'], 'c': 'c9', 'sz': 4},
                {'op': 'ext', 'do': 'delete', 'p': ['n']}]))
    crash = rnd.random() < 0.15
    steps.append({'op': 'build', 'name': 'B', 'vers': {}, 'root': [par, {'s': 'raise'} if crash else {'s': 'return'}]})
    steps.append({'op': 'build', 'name': 'B', 'vers': {}, 'root': [json.loads(json.dumps(par)), {'s': 'return'}]})
    if rnd.random() < 0.8:
        steps.append({'op': 'clean', 'name': 'B'})
    sc = {'id': '%s-%d' % (profile, seed), 'cache': ['k'], 'universe': [], 'threads': True, 'prog': THREAD_PROGS,
          'steps': steps, 'combo': combo}
    if kf_family:
        sc['kf_family'] = kf_family       # the shape of an open known finding (known_findings.json)
    return sc


def make_threads_rb(seed, profile):
    """Concurrent *re*-builds (C09): a committed first build leaves 2-3 outputs; the next build rebuilds them from
    cooperative threads with other functions (every thread first moves an old output aside), and often fails
    afterwards, so that the rollback has to put every old output back; then an unchanged rebuild and a clean."""
    rnd = random.Random('threadsrb:%s' % seed)
    nb = rnd.choice([2, 2, 3])
    targets = rnd.sample(THREAD_TARGETS, nb)
    first = [{'s': 'bf', 'p': t, 'f': 'fW', 'args': [i], 'cmp': rnd.choice(['METADATA', 'HASH']), 'catch': True}
             for i, t in enumerate(targets)]
    second = [{'s': 'bf', 'p': t, 'f': rnd.choice(['fW2', 'fW2', 'fR', 'fW']), 'args': [10 + i],
               'cmp': rnd.choice(['METADATA', 'HASH'])} for i, t in enumerate(targets)]
    steps = []
    r0 = 0.0 if PROFILES[profile].get('rb_foreign') else rnd.random()
    if r0 < 0.3:
        # no earlier build: the threads overwrite *foreign* files (each is moved aside first; C03: all of them are
        # back after the rollback)
        for i, t in enumerate(targets):
            steps.append({'op': 'ext', 'do': 'write', 'p': t, 'c': 'c9', 'sz': 4 + 2 * (i % 2)})
    elif r0 < 0.65:
        steps.append({'op': 'build', 'name': 'B', 'vers': {}, 'root': first + [{'s': 'return'}]})
    else:
        steps.append({'op': 'build', 'name': 'B', 'vers': {}, 'root': [
            {'s': 'par', 'branches': [dict(b, catch=False) for b in first], 'preempt': []}, {'s': 'return'}]})
    if rnd.random() < 0.3:
        steps.append({'op': 'ext', 'do': 'write', 'p': rnd.choice(targets), 'c': 'c7', 'sz': 6})
    par = {'s': 'par', 'branches': second, 'preempt': []}
    crash = rnd.random() < 0.6
    steps.append({'op': 'build', 'name': 'B', 'vers': {}, 'root': [par, {'s': 'raise'} if crash else {'s': 'return'}]})
    steps.append({'op': 'build', 'name': 'B', 'vers': {}, 'root': [json.loads(json.dumps(par)), {'s': 'return'}]})
    if rnd.random() < 0.7:
        steps.append({'op': 'clean', 'name': 'B'})
    sc = {'id': '%s-%d' % (profile, seed), 'cache': ['k'], 'universe': [], 'threads': True, 'prog': THREAD_PROGS,
          'steps': steps, 'combo': True}
    if PROFILES[profile].get('line_trace'):
        sc['line_trace'] = list(PROFILES[profile]['line_trace'])
    return sc


def make_threads_swap(seed, profile):
    """A directory of the previous build becomes an output file in one thread while another thread rebuilds an
    output below it (C02/C09, D32): whichever call loses has to fail in its setup, and after a rollback the old
    output is back with its old bytes.  Each thread catches the error of the losing call."""
    rnd = random.Random('threadsswap:%s' % seed)
    d, leaves = rnd.choice([(['n', 'm'], [['n', 'm', 'f3'], ['n', 'm', 'f4']]),
                            (['q', 'r'], [['q', 'r', 'f6'], ['q', 'r', 's', 'f5']]),
                            (['n'], [['n', 'f1'], ['n', 'm', 'f3']])])
    keep = rnd.sample(leaves, rnd.choice([1, 1, 2]))
    first = [{'s': 'bf', 'p': t, 'f': 'fW', 'args': [i], 'cmp': rnd.choice(['METADATA', 'HASH']), 'catch': True}
             for i, t in enumerate(keep)]
    steps = [{'op': 'build', 'name': 'B', 'vers': {}, 'root': first + [{'s': 'return'}]}]
    second = [{'s': 'bf', 'p': t, 'f': rnd.choice(['fW2', 'fW2', 'fR']), 'args': [10 + i], 'cmp': rnd.choice(['METADATA', 'HASH']),
               'catch': True} for i, t in enumerate(keep)]
    second.insert(rnd.randrange(len(second) + 1),
                  {'s': 'bf', 'p': d, 'f': rnd.choice(['fW', 'fW2']), 'args': [20], 'cmp': 'HASH', 'catch': True})
    par = {'s': 'par', 'branches': second, 'preempt': []}
    # the two calls depend on each other, so only the rollback is judged (step flag `opaque`); the next build makes
    # the same calls one after another and has to behave as if the failed build had never run
    steps.append({'op': 'build', 'name': 'B', 'vers': {}, 'root': [par, {'s': 'raise'}], 'opaque': True})
    steps.append({'op': 'build', 'name': 'B', 'vers': {}, 'root': [dict(b) for b in second] + [{'s': 'return'}]})
    if rnd.random() < 0.5:
        steps.append({'op': 'clean', 'name': 'B'})
    return {'id': '%s-%d' % (profile, seed), 'cache': ['k'], 'universe': [], 'threads': True, 'prog': THREAD_PROGS,
            'steps': steps, 'combo': True}


def make_threads_qdep(seed, profile):
    """A thread asks about the very path another thread is building with a function that writes and then raises
    (C04, D43).  The racing answer itself is not judged; the queries the root function makes after the threads
    are joined are - the directories created only for the failed output must be gone again."""
    rnd = random.Random('threadsqdep:%s' % seed)
    P = rnd.choice([['n', 'm', 'f3'], ['q', 'r', 's', 'f5'], ['n', 'f1'], ['q', 'r', 'f6']])
    kind = rnd.choice(['is_file', 'exists', 'read', 'get_size', 'is_file', 'list_dir'])
    racing = {'s': 'q', 'kind': kind, 'p': P[:-1] if kind == 'list_dir' else P, 'nojudge': True}
    if kind == 'read':
        racing.update(cmp=rnd.choice(['METADATA', 'HASH']), how='binary')
    failing = {'s': 'bf', 'p': P, 'f': 'fR', 'args': [0], 'cmp': rnd.choice(['METADATA', 'HASH']), 'catch': True}
    branches = [failing, racing] if rnd.random() < 0.5 else [racing, failing]
    after = []
    for k in range(1, len(P)):
        after.append({'s': 'q', 'kind': 'is_dir', 'p': P[:k]})
        after.append({'s': 'q', 'kind': 'list_dir', 'p': P[:k]})
    after += [{'s': 'q', 'kind': 'exists', 'p': P}, {'s': 'q', 'kind': 'list_dir', 'p': []},
              {'s': 'q', 'kind': 'walk', 'p': [], 'td': True}]
    rnd.shuffle(after)
    steps = []
    if rnd.random() < 0.4:
        # the directories are left over from a previous build (stale, virtually removed) instead of new
        steps.append({'op': 'build', 'name': 'B', 'vers': {}, 'root': [
            {'s': 'bf', 'p': P[:-1] + ['old'], 'f': 'fW', 'args': [9], 'cmp': 'HASH', 'catch': True}, {'s': 'return'}]})
    par = {'s': 'par', 'branches': branches, 'preempt': []}
    steps.append({'op': 'build', 'name': 'B', 'vers': {}, 'root': [par] + after + [{'s': 'return'}]})
    steps.append({'op': 'build', 'name': 'B', 'vers': {}, 'root': [dict(failing)] + [dict(q) for q in after] + [{'s': 'return'}]})
    if rnd.random() < 0.6:
        steps.append({'op': 'clean', 'name': 'B'})
    return {'id': '%s-%d' % (profile, seed), 'cache': ['k'], 'universe': [], 'threads': True, 'prog': THREAD_PROGS,
            'steps': steps, 'combo': True, 'qdep_triples': PROFILES[profile].get('qdep_triples', 600)}


def make_linkstale(seed, profile):
    """A symbolic link, planted between two builds, that points at an output of the previous build (C01 / C04,
    open finding KF-link-to-stale-output): from scratch the output is gone and the link points at nothing, so every
    query through it answers "absent".  The snapshot reports such a link as a pin (projection rule `alias_pins`);
    the output is not rebuilt in the builds that look through the link."""
    rnd = random.Random('linkstale:%s' % seed)
    T = rnd.choice([['x'], ['d', 'x'], ['d', 'e', 'z'], ['g', 'w']])
    L = rnd.choice([['lnk'], ['d', 'lnk'], ['zz', 'lnk']])
    kinds = rnd.sample(['is_file', 'exists', 'read', 'get_size', 'is_dir'], rnd.choice([2, 3, 4]))
    qs = []
    for k in kinds:
        q = {'s': 'q', 'kind': k, 'p': L}
        if k == 'read':
            q.update(cmp=rnd.choice(['METADATA', 'HASH']), how=rnd.choice(['declare', 'binary']))
        qs.append(q)
    prog = {'fW': W_, 'fQ': qs + [{'s': 'return'}]}
    steps = [{'op': 'build', 'name': 'B', 'vers': {}, 'root': [
        {'s': 'bf', 'p': T, 'f': 'fW', 'args': [1], 'cmp': rnd.choice(['METADATA', 'HASH']), 'catch': True}, {'s': 'return'}]},
        {'op': 'ext', 'do': 'linkto', 'p': L, 'to': T}]
    look = [{'s': 'sb', 'f': 'fQ', 'args': [0], 'catch': True}] if rnd.random() < 0.5 else [dict(q) for q in qs]
    for _ in range(rnd.choice([1, 2])):
        steps.append({'op': 'build', 'name': 'B', 'vers': {}, 'root': look + [{'s': 'return'}]})
    if rnd.random() < 0.5:
        steps.append({'op': 'clean', 'name': 'B'})
    return {'id': '%s-%d' % (profile, seed), 'cache': ['k'], 'universe': [], 'prog': prog, 'steps': steps,
            'alias_pins': True, 'kf_family': 'KF-link-to-stale-output'}


def make_threads_q(seed, profile):
    """Concurrent calls *and queries* (C09): thread functions look at paths whose answer cannot depend on the
    other threads - a foreign area nobody builds in, the stale directories of the previous build that nobody
    re-creates (virtually removed), their own target's ancestors, absent paths - and some threads only query."""
    rnd = random.Random('threadsq:%s' % seed)
    foreign = [['z'], ['z', 'f'], ['z', 's'], ['z', 's', 'g']]
    stale = [['old'], ['old', 'p'], ['old', 'o1'], ['old', 'p', 'o2']]
    absent = [['zz'], ['zz', 'a']]
    prog = dict(THREAD_PROGS)

    def q_indep(own):
        pool = [(p, k) for p in foreign for k in ('exists', 'is_file', 'is_dir', 'list_dir', 'walk', 'get_size', 'read')]
        pool += [(p, k) for p in stale + absent for k in ('exists', 'is_file', 'is_dir', 'list_dir', 'get_size', 'read')] * 2
        if own:
            pool += [(own[:i], k) for i in range(1, len(own)) for k in ('exists', 'is_dir')] * 3
        p, k = rnd.choice(pool)
        return {'s': 'q', 'kind': k, 'p': p, 'td': rnd.random() < 0.5, 'cmp': rnd.choice(['METADATA', 'HASH'])}
    if rnd.random() < 0.25:
        # an output compared by HASH whose recorded input changed: the record is found, the old output is hashed
        # and the call is executed after all - by one thread, while a second thread asks for the same file (a
        # duplicate)
        t = rnd.choice(THREAD_TARGETS)
        prog['fH'] = [{'s': 'q', 'kind': 'read', 'p': ['z', 'f'], 'cmp': 'HASH', 'td': False, 'how': 'binary'},
                      {'s': 'write', 'c': '@obs', 'sz': 4, 'mt': 700}, {'s': 'return'}]
        call = {'s': 'bf', 'p': t, 'f': 'fH', 'args': [0], 'cmp': 'HASH'}
        # (only a direct duplicate: a nested one inside a subbuild could not be placed in a sequential order of
        # whole calls, and calls for one target are not independent in the sense of C09 anyway)
        other = dict(call)
        first = [dict(call, catch=True)]
        par = {'s': 'par', 'branches': [dict(call), other], 'preempt': []}
        steps = [{'op': 'ext', 'do': 'mkdir', 'p': ['z']}, {'op': 'ext', 'do': 'write', 'p': ['z', 'f'], 'c': 'c9', 'sz': 6},
                 {'op': 'build', 'name': 'B', 'vers': {}, 'root': first + [{'s': 'return'}]},
                 {'op': 'ext', 'do': 'write', 'p': ['z', 'f'], 'c': 'c8', 'sz': 6},
                 {'op': 'build', 'name': 'B', 'vers': {}, 'root': [par, {'s': 'return'}]},
                 {'op': 'build', 'name': 'B', 'vers': {}, 'root': [json.loads(json.dumps(par)), {'s': 'return'}]},
                 {'op': 'clean', 'name': 'B'}]
        return {'id': '%s-%d' % (profile, seed), 'cache': ['k'], 'universe': [], 'threads': True, 'prog': prog,
                'steps': steps, 'combo': True}
    nb = rnd.choice([2, 2, 3])
    targets = rnd.sample(THREAD_TARGETS, nb)
    branches = []
    for i in range(nb):
        r = rnd.random()
        if r < 0.6:
            name = 'fQ%d' % i
            body = [q_indep(targets[i]) for _ in range(rnd.randrange(0, 3))]
            body.append({'s': 'write', 'c': rnd.choice(['c1', 'c2']), 'sz': 4})
            body += [q_indep(targets[i]) for _ in range(rnd.randrange(0, 3))]
            body.append({'s': 'raise'} if rnd.random() < 0.2 else {'s': 'return'})
            prog[name] = body
            branches.append({'s': 'bf', 'p': targets[i], 'f': name, 'args': [i], 'cmp': rnd.choice(['METADATA', 'HASH'])})
        elif r < 0.8:
            name = 'fSQ%d' % i
            prog[name] = [q_indep(None) for _ in range(rnd.randrange(1, 4))] + [{'s': 'raise'} if rnd.random() < 0.15 else {'s': 'return'}]
            branches.append({'s': 'sb', 'f': name, 'args': [i]})
        else:
            branches.append(q_indep(None))
    steps = [{'op': 'ext', 'do': 'mkdir', 'p': ['z']}, {'op': 'ext', 'do': 'write', 'p': ['z', 'f'], 'c': 'c9', 'sz': 6},
             {'op': 'ext', 'do': 'mkdir', 'p': ['z', 's']}]
    if rnd.random() < 0.5:
        steps.append({'op': 'ext', 'do': 'write', 'p': ['z', 's', 'g'], 'c': 'c8', 'sz': 4})
    if rnd.random() < 0.7:      # a previous build whose directories go stale
        first = [{'s': 'bf', 'p': ['old', 'o1'], 'f': 'fW', 'args': [90], 'catch': True},
                 {'s': 'bf', 'p': ['old', 'p', 'o2'], 'f': 'fW', 'args': [91], 'catch': True}]
        if rnd.random() < 0.5:
            first += [dict(b, catch=True) for b in branches if b['s'] != 'q']
        steps.append({'op': 'build', 'name': 'B', 'vers': {}, 'root': first + [{'s': 'return'}]})
        if rnd.random() < 0.3:
            steps.append({'op': 'ext', 'do': 'delete', 'p': ['old', 'o1']})
    par = {'s': 'par', 'branches': branches, 'preempt': []}
    crash = rnd.random() < 0.15
    steps.append({'op': 'build', 'name': 'B', 'vers': {}, 'root': [par, {'s': 'raise'} if crash else {'s': 'return'}]})
    steps.append({'op': 'build', 'name': 'B', 'vers': {}, 'root': [json.loads(json.dumps(par)), {'s': 'return'}]})
    if rnd.random() < 0.8:
        steps.append({'op': 'clean', 'name': 'B'})
    return {'id': '%s-%d' % (profile, seed), 'cache': ['k'], 'universe': [], 'threads': True, 'prog': prog,
            'steps': steps, 'combo': False}


def make_straggler(seed, profile):
    """C17: the root function hands its builder to another thread and returns (or raises) while that thread
    keeps calling methods; later builds and clean reveal whether completed calls are in the record."""
    rnd = random.Random('straggler:%s' % seed)
    progs = dict(THREAD_PROGS)
    pre = []
    for i in range(rnd.randrange(0, 3)):
        pre.append({'s': 'bf', 'p': rnd.choice([['o', 'x%d' % i], ['late', 'p%d' % i]]), 'f': 'fW', 'args': [i], 'catch': True})
    post = []
    for i in range(rnd.randrange(0, 3)):
        if rnd.random() < 0.6:
            post.append({'s': 'bf', 'p': ['o', 'y%d' % i], 'f': rnd.choice(['fW', 'fR']), 'args': [10 + i], 'catch': True})
        else:
            post.append({'s': 'q', 'kind': rnd.choice(['exists', 'list_dir', 'is_dir']), 'p': rnd.choice([['o'], ['zz']])})
    end = {'s': 'raise'} if rnd.random() < 0.2 else {'s': 'return'}
    ops = []
    for i in range(rnd.randrange(2, 6)):
        r = rnd.random()
        if r < 0.4:
            ops.append({'s': 'q', 'kind': rnd.choice(['exists', 'is_file', 'is_dir', 'list_dir', 'walk', 'get_size', 'read']),
                        'p': rnd.choice([['late'], ['zz'], ['late', 'l0'], ['late', 'p0']])})
        elif r < 0.8:
            ops.append({'s': 'bf', 'p': ['late', 'l%d' % i], 'f': rnd.choice(['fW', 'fW2', 'fR']), 'args': [20 + i]})
        else:
            ops.append({'s': 'sb', 'f': rnd.choice(['fS', 'fSR']), 'args': [30 + i]})
    root1 = pre + [{'s': 'handoff'}] + post + [end]
    follow = pre + post + [dict(o, catch=True) for o in ops if o['s'] != 'q'] + [{'s': 'return'}]
    if rnd.random() < 0.5:
        # the builder of a build_file / subbuild function is handed over instead of the root builder
        kind = rnd.choice(['bf', 'sb'])
        body = [{'s': 'q', 'kind': 'exists', 'p': ['zz']}, {'s': 'handoff'}]
        if kind == 'bf':
            body.insert(rnd.randrange(3), {'s': 'write', 'c': 'c1', 'sz': 4})
        body += [{'s': 'q', 'kind': 'is_dir', 'p': ['zz']}] * rnd.randrange(0, 2)
        body.append({'s': 'raise'} if rnd.random() < 0.25 else {'s': 'return'})
        progs['fH'] = body
        call = {'s': kind, 'f': 'fH', 'args': [99], 'catch': True, 'p': ['o', 'h0'], 'cmp': 'HASH'}
        ops = [o for o in ops if o['s'] == 'q' or rnd.random() < 0.5]
        root1 = pre + [call] + post + [end]
        follow = pre + [dict(call)] + post + [dict(o, catch=True) for o in ops if o['s'] != 'q'] + [{'s': 'return'}]
    steps = [{'op': 'build', 'name': 'B', 'vers': {}, 'root': root1, 'straggler': {'ops': ops, 'preempt': []}},
             {'op': 'build', 'name': 'B', 'vers': {}, 'root': follow}]
    if rnd.random() < 0.7:
        steps.append({'op': 'clean', 'name': 'B'})
    return {'id': '%s-%d' % (profile, seed), 'cache': ['k'], 'universe': [], 'threads': True, 'prog': progs, 'steps': steps}


SWAP_A = [['x'], ['d', 'y'], ['d', 'e'], ['g', 'w']]                       # layout A: these paths are output files
SWAP_B = [['x', 'q'], ['d', 'y', 'r'], ['d', 'e', 'z'], ['g']]              # layout B: they are directories (or vice versa)


def make_swap(seed, profile):
    """Output paths change between file and directory across builds (and a failed target becomes a directory
    later in the same build), with failing builds, external changes and cleans in between."""
    rnd = random.Random('swap:%s' % seed)
    prog = {}
    for lay in 'AB':
        prog['w' + lay] = [{'s': 'write', 'c': 'c1', 'sz': 4}, {'s': 'return'}]
        prog['r' + lay] = [{'s': 'write', 'c': 'c2', 'sz': 4}, {'s': 'raise'}]
        prog['q' + lay] = [{'s': 'q', 'kind': 'list_dir', 'p': ['d']}, {'s': 'q', 'kind': 'is_dir', 'p': ['x']},
                           {'s': 'write', 'c': 'c3', 'sz': 6}, {'s': 'return'}]

    def root(lay, crash):
        ts = SWAP_A if lay == 'A' else SWAP_B
        r = []
        for t in rnd.sample(ts, rnd.randrange(1, len(ts) + 1)):
            r.append({'s': 'bf', 'p': t, 'f': rnd.choice(['w', 'w', 'r', 'q']) + lay, 'args': [0],
                      'cmp': rnd.choice(['METADATA', 'HASH']), 'catch': True})
            if rnd.random() < 0.4:
                r.append({'s': 'q', 'kind': rnd.choice(['is_dir', 'is_file', 'list_dir', 'walk', 'exists']),
                          'p': rnd.choice([['d'], ['x'], ['d', 'y'], ['d', 'e'], ['g'], []])})
        if rnd.random() < 0.2:
            # a target whose function raises, then (same build) an output below that path: the failed path is
            # not an output, so this is within "no output path is a proper ancestor of another output path"
            a, b = rnd.choice(list(zip(SWAP_A, SWAP_B))[:3])
            r.append({'s': 'bf', 'p': a, 'f': 'r' + lay + 'x', 'args': [7], 'catch': True})
            r.append({'s': 'bf', 'p': b, 'f': 'w' + lay + 'x', 'args': [8], 'catch': True})
            prog['r' + lay + 'x'] = prog['r' + lay]
            prog['w' + lay + 'x'] = prog['w' + lay]
            r = [st for st in r if st['s'] != 'bf' or st['p'] not in (a, b) or st['f'].endswith('x')]
        if rnd.random() < 0.4:
            r.insert(0, {'s': 'probe', 'kinds': ['is_dir', 'exists', 'list_dir', 'is_file', 'walk']})
        r.append({'s': 'raise'} if crash else {'s': 'return'})
        return r
    steps = []
    for p in rnd.sample(SWAP_A + SWAP_B + [['d', 'fz']], rnd.randrange(0, 3)):
        steps.append({'op': 'ext', 'do': 'write', 'p': p, 'c': 'c9', 'sz': 4})
    lay = rnd.choice('AB')
    for b in range(rnd.choice([2, 3, 4])):
        steps.append({'op': 'build', 'name': 'B', 'vers': {}, 'root': root(lay, rnd.random() < 0.35)})
        if rnd.random() < 0.6:
            lay = 'B' if lay == 'A' else 'A'
        if rnd.random() < 0.3:
            p = rnd.choice(SWAP_A + SWAP_B)
            steps.append(rnd.choice([{'op': 'ext', 'do': 'delete', 'p': p}, {'op': 'ext', 'do': 'write', 'p': p, 'c': 'c8', 'sz': 4},
                                     {'op': 'ext', 'do': 'mkdir', 'p': p}]))
        if rnd.random() < 0.15:
            steps.append({'op': 'clean', 'name': 'B'})
    if rnd.random() < 0.4:
        steps.append({'op': 'clean', 'name': 'B'})
    return {'id': '%s-%d' % (profile, seed), 'cache': ['k'], 'universe': [['x'], ['d'], ['d', 'y'], ['d', 'e'], ['g'], ['x', 'q'],
            ['d', 'y', 'r'], ['d', 'e', 'z'], ['g', 'w']], 'prog': prog, 'steps': steps}


def make_nested(seed, profile):
    """Structured three-level programs (top subbuild/build_file -> mid build_files -> leaf build_files that
    succeed or raise and are caught), with directory queries placed after nested calls; rebuilt unchanged
    (and after single mutations), optionally cleaned.  Targets the replay overlay / directory bookkeeping."""
    rnd = random.Random('nested:%s' % seed)
    leaves = [list(p) for p in LEAVES + [['d', 'e', 'w'], ['g', 'h', 'v'], ['d', 'u'], ['d', 'e', 'f', 'w'],
                                         ['g', 'h', 'i', 'v'], ['d', 'e', 'f', 'j', 'u']]]
    rnd.shuffle(leaves)
    if rnd.random() < 0.5:      # outer targets shallow, inner targets deeper in the same branch
        leaves.sort(key=lambda p: (p[0], -len(p)))
    dirs = [['d'], ['d', 'e'], ['g'], ['g', 'h'], [], ['d', 'e', 'f'], ['g', 'h', 'i']]
    prog = {'leafW': [{'s': 'write', 'c': 'c1', 'sz': 4}, {'s': 'return'}],
            'leafR': [{'s': 'write', 'c': 'c2', 'sz': 4}, {'s': 'raise'}],
            'leafR0': [{'s': 'raise'}]}

    def dq():
        return {'s': 'q', 'kind': rnd.choice(['is_dir', 'exists', 'list_dir', 'walk', 'list_dir']), 'p': rnd.choice(dirs),
                'td': rnd.random() < 0.5}
    used = []

    def target():
        t = leaves[len(used) % len(leaves)]
        used.append(t)
        return t
    for m in range(2):
        body = []
        for _ in range(rnd.randrange(1, 3)):
            body.append({'s': 'bf', 'p': target(), 'f': rnd.choice(['leafW', 'leafR', 'leafR0']), 'args': [len(used)],
                         'cmp': rnd.choice(['METADATA', 'HASH']), 'catch': True})
            if rnd.random() < 0.6:
                body.append(dq())
        body.insert(rnd.randrange(len(body) + 1), {'s': 'write', 'c': 'c3', 'sz': 4})
        if rnd.random() < 0.5:
            body.append(dq())
        body.append({'s': 'raise'} if rnd.random() < 0.3 else {'s': 'return'})
        prog['mid%d' % m] = body
    top = []
    for m in range(2):
        if rnd.random() < 0.85:
            top.append({'s': 'bf', 'p': target(), 'f': 'mid%d' % m, 'args': [m], 'cmp': rnd.choice(['METADATA', 'HASH']),
                        'catch': True})
            if rnd.random() < 0.7:
                top.append(dq())
    if rnd.random() < 0.5:
        top.append({'s': 'bf', 'p': target(), 'f': rnd.choice(['leafW', 'leafR']), 'args': [9], 'catch': True})
    top.append(dq())
    top.append({'s': 'return'})
    prog['top'] = top
    root = [{'s': rnd.choice(['sb', 'sb', 'bf']), 'f': 'top', 'args': [0], 'catch': True, 'p': target(), 'cmp': 'HASH'}]
    if root[0]['s'] == 'bf':
        prog['top'] = [{'s': 'write', 'c': 'c1', 'sz': 6}] + top
    root.append({'s': 'return'})
    steps = []
    for _ in range(rnd.choice([0, 0, 1])):
        steps.append({'op': 'ext', 'do': rnd.choice(['mkdir', 'mkdir', 'write']), 'p': rnd.choice([['d'], ['g'], ['d', 'e']]),
                      'c': 'c9', 'sz': 4})
    for b in range(rnd.choice([3, 3, 4])):
        steps.append({'op': 'build', 'name': 'B', 'vers': {}, 'root': [dict(st) for st in root]})
        if b and rnd.random() < 0.3:
            t = rnd.choice(used)
            anc = [t[:i] for i in range(1, len(t))] or [['d']]
            steps.append(rnd.choice([{'op': 'ext', 'do': 'delete', 'p': t}, {'op': 'ext', 'do': 'write', 'p': t, 'c': 'c8', 'sz': 4},
                                     {'op': 'ext', 'do': 'write', 'p': ['d', 'fz'], 'c': 'c8', 'sz': 4},
                                     # a regular file where a (possibly absent) ancestor directory of a target was
                                     {'op': 'ext', 'do': 'write', 'p': rnd.choice(anc), 'c': 'c7', 'sz': 4},
                                     {'op': 'ext', 'do': 'write', 'p': anc[0], 'c': 'c7', 'sz': 6}]))
    if rnd.random() < 0.5:
        steps.append({'op': 'clean', 'name': 'B'})
    return {'id': '%s-%d' % (profile, seed), 'cache': ['k'], 'universe': UNIVERSE, 'prog': prog, 'steps': steps}


def make_selfnest(seed, profile):
    """build_file functions that treat their own (in-progress) target as a directory: a nested build_file for a
    path below the enclosing target, before or after the function wrote it; on top of a foreign file, an old
    output or an old directory at that position; committed, caught or rolled back, then rebuilt unchanged."""
    rnd = random.Random('selfnest:%s' % seed)
    T = rnd.choice([['x'], ['d', 'y'], ['g', 'w'], ['d', 'e', 'z']])
    below = [T + ['c'], T + ['c', 'e'], T + ['k']]
    if rnd.random() < 0.2:
        # a target that failed inside a (cached) subbuild / build_file becomes a directory of outputs later in
        # the same build; the next builds reuse the enclosing call, carry on or fail, and are rolled back
        inner = {'s': 'bf', 'p': T, 'f': 'inR', 'args': [0], 'cmp': rnd.choice(['METADATA', 'HASH']), 'catch': True}
        prog = {'inW': [{'s': 'write', 'c': 'c1', 'sz': 4}, {'s': 'return'}],
                'inR': [{'s': 'write', 'c': 'c2', 'sz': 4}, {'s': 'raise'}],
                'sS': [inner, {'s': 'return'}],
                'bS': [inner, {'s': 'write', 'c': 'c3', 'sz': 4}, {'s': 'return'}]}
        enc = rnd.choice([{'s': 'sb', 'f': 'sS', 'args': [1], 'catch': True},
                          {'s': 'bf', 'p': ['q0'], 'f': 'bS', 'args': [1], 'cmp': 'HASH', 'catch': True}])
        kids = [{'s': 'bf', 'p': b, 'f': 'inW', 'args': [i], 'cmp': 'METADATA', 'catch': True}
                for i, b in enumerate(rnd.sample(below, rnd.choice([1, 2])))]
        root1 = [enc] + kids + [{'s': 'return'}]
        steps = [{'op': 'build', 'name': 'B', 'vers': {}, 'root': root1}]
        for b in range(rnd.choice([1, 2])):
            r = [dict(enc)] + ([dict(k) for k in kids] if rnd.random() < 0.6 else [])
            if rnd.random() < 0.3:
                r.reverse()
            r.append({'s': 'raise'} if rnd.random() < 0.6 else {'s': 'return'})
            steps.append({'op': 'build', 'name': 'B', 'vers': {}, 'root': r})
        steps.append({'op': 'build', 'name': 'B', 'vers': {}, 'root': [dict(x) for x in root1]})
        if rnd.random() < 0.5:
            steps.append({'op': 'clean', 'name': 'B'})
        universe = DIRS + LEAVES + [x for x in below if x not in LEAVES]
        return {'id': '%s-%d' % (profile, seed), 'cache': ['k'], 'universe': universe, 'prog': prog, 'steps': steps}
    def q():
        return {'s': 'q', 'kind': rnd.choice(['exists', 'is_file', 'is_dir', 'list_dir', 'get_size', 'walk']),
                'p': rnd.choice([T, T[:-1], below[0], below[1]]), 'td': False}
    prog = {'inW': [{'s': 'write', 'c': 'c1', 'sz': 4}, {'s': 'return'}],
            'inR': [{'s': 'write', 'c': 'c2', 'sz': 4}, {'s': 'raise'}],
            'in0': [{'s': 'return'}],
            # the nested function looks at the enclosing target and its surroundings before / after writing
            'inQ': [q(), q(), {'s': 'write', 'c': 'c1', 'sz': 6}, q(), {'s': 'return'}],
            'plain': [{'s': 'write', 'c': 'c3', 'sz': 6}, {'s': 'return'}]}
    body = []
    when = rnd.choice(['after', 'after', 'before', 'both', 'never'])
    if when in ('after', 'both'):
        body.append({'s': 'write', 'c': 'c1', 'sz': 6})
    for i in range(rnd.choice([1, 1, 2])):
        body.append({'s': 'bf', 'p': rnd.choice(below), 'f': rnd.choice(['inW', 'inQ', 'inQ', 'inR', 'in0']), 'args': [i],
                     'cmp': rnd.choice(['METADATA', 'HASH']), 'catch': rnd.random() < 0.8})
        if rnd.random() < 0.4:
            body.append(q())
    if when in ('before', 'both'):
        body.append({'s': 'write', 'c': 'c2', 'sz': 4})
    body.append({'s': 'raise'} if rnd.random() < 0.25 else {'s': 'return'})
    prog['outer'] = body
    steps = []
    pre = rnd.choice(['none', 'foreign', 'old', 'old', 'olddir', 'foreigndir'])
    if pre == 'foreign':
        steps.append({'op': 'ext', 'do': 'write', 'p': T, 'c': 'c9', 'sz': 4})
    elif pre == 'foreigndir':
        steps.append({'op': 'ext', 'do': 'mkdir', 'p': T})
    elif pre == 'old':
        steps.append({'op': 'build', 'name': 'B', 'vers': {}, 'root': [
            {'s': 'bf', 'p': T, 'f': 'plain', 'args': [0], 'cmp': 'HASH'}, {'s': 'return'}]})
    elif pre == 'olddir':
        steps.append({'op': 'build', 'name': 'B', 'vers': {}, 'root': [
            {'s': 'bf', 'p': below[0], 'f': 'plain', 'args': [0], 'cmp': 'HASH'}, {'s': 'return'}]})
    root = [{'s': 'bf', 'p': T, 'f': 'outer', 'args': [1], 'cmp': rnd.choice(['METADATA', 'HASH']),
             'catch': rnd.random() < 0.7}]
    if rnd.random() < 0.5:
        root.append(q())
    crash = rnd.random() < 0.4
    steps.append({'op': 'build', 'name': 'B', 'vers': {}, 'root': root + [{'s': 'raise'} if crash else {'s': 'return'}]})
    steps.append({'op': 'build', 'name': 'B', 'vers': {}, 'root': [dict(x, catch=True) if x['s'] == 'bf' else dict(x)
                                                                  for x in root] + [{'s': 'return'}]})
    if rnd.random() < 0.5:
        steps.append({'op': 'clean', 'name': 'B'})
    universe = DIRS + LEAVES + [x for x in below if x not in LEAVES]
    return {'id': '%s-%d' % (profile, seed), 'cache': ['k'], 'universe': universe, 'prog': prog, 'steps': steps}


def make_faultretry(seed, profile):
    """Base histories for fault injection (C14) in which the program *carries on* after a caught library error:
    the failed call is retried, with the same function or with the one of the previous build (so that the old
    record is reused after all), inside or outside a subbuild; the build then commits or fails."""
    rnd = random.Random('faultretry:%s' % seed)
    if rnd.random() < 0.2:
        # a re-executed function asks for a recorded call that is still valid; serving it (creating directories, moving
        # files aside) is where the fault strikes; the function catches the error; later builds ask for the pieces
        Y = rnd.choice([['u', 'v', 'q'], ['n', 'q'], ['d', 'e', 'q']])
        prog = {'fA': [{'s': 'write', 'c': 'c1', 'sz': 4}, {'s': 'return'}],
                's2': [{'s': 'return'}],
                'sS': [{'s': 'bf', 'p': Y, 'f': 'fA', 'args': [9], 'cmp': 'METADATA', 'catch': True},
                       {'s': 'sb', 'f': 's2', 'args': [3], 'catch': True}, {'s': 'return'}],
                'sP': [{'s': 'q', 'kind': 'read', 'p': ['inp'], 'cmp': 'HASH', 'td': False, 'how': 'binary'},
                       {'s': 'sb', 'f': 'sS', 'args': [1], 'catch': True}, {'s': 'return'}]}
        call_p = {'s': 'sb', 'f': 'sP', 'args': [0], 'catch': True}
        pieces = [{'s': 'sb', 'f': 's2', 'args': [3], 'catch': True},
                  {'s': 'bf', 'p': Y, 'f': 'fA', 'args': [9], 'cmp': 'METADATA', 'catch': True},
                  {'s': 'sb', 'f': 'sS', 'args': [1], 'catch': True}]
        rnd.shuffle(pieces)
        steps = [{'op': 'ext', 'do': 'write', 'p': ['inp'], 'c': 'c9', 'sz': 4},
                 {'op': 'build', 'name': 'B', 'vers': {}, 'root': [dict(call_p), {'s': 'return'}]},
                 {'op': 'ext', 'do': 'write', 'p': ['inp'], 'c': 'c8', 'sz': 4},
                 {'op': 'build', 'name': 'B', 'vers': {}, 'root': [dict(call_p), {'s': 'raise'} if rnd.random() < 0.2 else {'s': 'return'}]},
                 {'op': 'build', 'name': 'B', 'vers': {}, 'root': [dict(call_p)] + pieces[:rnd.choice([1, 2, 3])] + [{'s': 'return'}]}]
        if rnd.random() < 0.5:
            steps.append({'op': 'clean', 'name': 'B'})
        return {'id': '%s-%d' % (profile, seed), 'cache': ['k'], 'universe': UNIVERSE, 'prog': prog, 'steps': steps}
    targets = rnd.sample([['d', 'x'], ['d', 'e', 'z'], ['g', 'w'], ['x'], ['n', 'm', 'f']], rnd.choice([2, 3]))
    prog = {'fA': [{'s': 'write', 'c': 'c1', 'sz': 4}, {'s': 'return'}],
            'fB': [{'s': 'write', 'c': 'c2', 'sz': 6}, {'s': 'return'}],
            'fC': [{'s': 'write', 'c': 'c3', 'sz': 4}, {'s': 'raise'}]}
    wrap = rnd.random() < 0.4      # the first build makes its calls inside a subbuild
    first = [{'s': 'bf', 'p': t, 'f': 'fA', 'args': [i], 'cmp': rnd.choice(['METADATA', 'HASH']), 'catch': True}
             for i, t in enumerate(targets)]
    if rnd.random() < 0.45:
        # a deeper record: the first output's function builds another file (in a directory it shares with a
        # sibling, or in one of its own) before it writes - or that nested call fails and is caught
        inner = rnd.choice([['d', 'e', 'q'], ['d', 'q'], ['g', 'q'], ['n', 'q'], ['u', 'v', 'q']])
        prog['fN'] = [{'s': 'bf', 'p': inner, 'f': rnd.choice(['fA', 'fA', 'fC']), 'args': [9], 'cmp': 'METADATA', 'catch': True},
                      {'s': 'write', 'c': 'c1', 'sz': 6}, {'s': 'return'}]
        first[0]['f'] = 'fN'
        wrap = wrap or rnd.random() < 0.5
    if wrap:
        prog['sA'] = [dict(c) for c in first] + [{'s': 'return'}]
        root1 = [{'s': 'sb', 'f': 'sA', 'args': [0], 'catch': True}, {'s': 'return'}]
    else:
        root1 = first + [{'s': 'return'}]
    steps = [{'op': 'build', 'name': 'B', 'vers': {}, 'root': root1}]
    if rnd.random() < 0.3:
        t = rnd.choice(targets)
        steps.append(rnd.choice([{'op': 'ext', 'do': 'delete', 'p': t}, {'op': 'ext', 'do': 'write', 'p': t, 'c': 'c7', 'sz': 6}]))
    root2 = []
    for i, t in enumerate(targets):
        r = rnd.random()
        orig = dict(first[i])
        if r < 0.5:       # try something new, then fall back to what the previous build did
            root2.append({'s': 'bf', 'p': t, 'f': rnd.choice(['fB', 'fB', 'fC']), 'args': [i], 'cmp': orig['cmp'], 'catch': True})
            root2.append(orig)
        elif r < 0.7:     # the same call twice (the second is a duplicate unless the first failed in set-up)
            root2.append({'s': 'bf', 'p': t, 'f': 'fB', 'args': [i], 'cmp': orig['cmp'], 'catch': True})
            root2.append({'s': 'bf', 'p': t, 'f': 'fB', 'args': [i], 'cmp': orig['cmp'], 'catch': True})
        else:
            root2.append(orig)
    if wrap and rnd.random() < 0.6:
        sa = {'s': 'sb', 'f': 'sA', 'args': [0], 'catch': True}
        if rnd.random() < 0.5:
            # the recorded subbuild is asked for first (it is served from the cache, unless the fault hits its
            # application), the direct calls follow (duplicates if it was served)
            root2 = [sa] + (root2 if rnd.random() < 0.5 else [])
        else:
            root2.append(sa)
    rnd.shuffle(root2) if rnd.random() < 0.2 else None
    crash = rnd.random() < 0.5
    steps.append({'op': 'build', 'name': 'B', 'vers': {}, 'root': root2 + [{'s': 'raise'} if crash else {'s': 'return'}]})
    steps.append({'op': 'build', 'name': 'B', 'vers': {}, 'root': [dict(x) for x in root2] + [{'s': 'return'}]})
    if rnd.random() < 0.5:
        steps.append({'op': 'clean', 'name': 'B'})
    return {'id': '%s-%d' % (profile, seed), 'cache': ['k'], 'universe': UNIVERSE, 'prog': prog, 'steps': steps}


def make_bulk(seed, profile):
    """Many outputs (C02): more than 128 files are rebuilt - i.e. moved aside, which takes the backup store into
    its sub-directory scheme - by a build that then fails; the rollback has to put every one of them back."""
    rnd = random.Random('bulk:%s' % seed)
    n = rnd.choice(PROFILES[profile].get('bulk_n', [131, 200, 270]))
    paths = [['b%d' % (i % 7), 'f%d' % i] for i in range(n)]
    prog = {'fW': W_, 'fW2': [{'s': 'write', 'c': 'c2', 'sz': 6}, {'s': 'return'}], 'f0': [{'s': 'return'}],
            'fR2': [{'s': 'write', 'c': 'c3', 'sz': 4}, {'s': 'raise'}]}
    calls1 = [{'s': 'bf', 'p': p, 'f': 'fW', 'args': [], 'cmp': 'METADATA'} for p in paths]
    # the rebuilding calls tolerate failures (an injected fault, a function that creates nothing or raises)
    calls2 = [{'s': 'bf', 'p': p, 'f': 'fW2' if rnd.random() < 0.9 else rnd.choice(['f0', 'fR2']), 'args': [],
               'cmp': 'METADATA', 'catch': True} for p in paths]
    rnd.shuffle(calls2)
    steps = [{'op': 'build', 'name': 'B', 'vers': {}, 'root': calls1 + [{'s': 'return'}]},
             {'op': 'build', 'name': 'B', 'vers': {}, 'root': calls2 + [{'s': 'raise'}]},
             {'op': 'build', 'name': 'B', 'vers': {}, 'root': calls1 + [{'s': 'return'}]},
             {'op': 'clean', 'name': 'B'}]
    return {'id': '%s-%d' % (profile, seed), 'cache': ['k'], 'universe': [], 'prog': prog, 'steps': steps}


def make_bigfile(seed, profile):
    """Files beyond any plausible "too big to hash" threshold (C13): a 33 MiB and a 65 MiB input are read with HASH
    and METADATA, an output of that size is compared by HASH; between builds the bytes change under the old size
    and mtime, or only the mtime changes."""
    rnd = random.Random('bigfile:%s' % seed)
    big = rnd.choice([33 * 2 ** 20 + 4096, 65 * 2 ** 20 + 1])
    prog = {'fRd': [{'s': 'q', 'kind': 'read', 'p': ['big'], 'cmp': 'HASH', 'td': False, 'how': 'declare'}, {'s': 'return'}],
            'fRm': [{'s': 'q', 'kind': 'read', 'p': ['big'], 'cmp': 'METADATA', 'td': False, 'how': 'declare'}, {'s': 'return'}],
            'fBig': [{'s': 'write', 'c': 'c1', 'sz': big}, {'s': 'return'}]}
    root = [{'s': 'sb', 'f': 'fRd', 'args': [0], 'catch': True}, {'s': 'sb', 'f': 'fRm', 'args': [1], 'catch': True},
            {'s': 'bf', 'p': ['o', 'bigout'], 'f': 'fBig', 'args': [2], 'cmp': 'HASH', 'catch': True}, {'s': 'return'}]
    steps = [{'op': 'ext', 'do': 'write', 'p': ['big'], 'c': 'c9', 'sz': big},
             {'op': 'build', 'name': 'B', 'vers': {}, 'root': root},
             rnd.choice([{'op': 'ext', 'do': 'rewrite_keep_meta', 'p': ['big'], 'c': 'c8'},
                         {'op': 'ext', 'do': 'touch', 'p': ['big']}]),
             {'op': 'build', 'name': 'B', 'vers': {}, 'root': [dict(x) for x in root]},
             rnd.choice([{'op': 'ext', 'do': 'rewrite_keep_meta', 'p': ['o', 'bigout'], 'c': 'c7'},
                         {'op': 'ext', 'do': 'touch', 'p': ['o', 'bigout']}]),
             {'op': 'build', 'name': 'B', 'vers': {}, 'root': [dict(x) for x in root]}]
    return {'id': '%s-%d' % (profile, seed), 'cache': ['k'], 'universe': [], 'prog': prog, 'steps': steps}


def make_scenario(seed, profile='general'):
    P = PROFILES[profile]
    if P.get('swap'):
        return make_swap(seed, profile)
    if P.get('nested'):
        return make_nested(seed, profile)
    if P.get('selfnest'):
        return make_selfnest(seed, profile)
    if P.get('faultretry'):
        return make_faultretry(seed, profile)
    if P.get('bulk'):
        return make_bulk(seed, profile)
    if P.get('bigfile'):
        return make_bigfile(seed, profile)
    if P.get('straggler'):
        return make_straggler(seed, profile)
    if P.get('threads_rb'):
        return make_threads_rb(seed, profile)
    if P.get('linkstale'):
        return make_linkstale(seed, profile)
    if P.get('threads_swap'):
        return make_threads_swap(seed, profile)
    if P.get('threads_qdep'):
        return make_threads_qdep(seed, profile)
    if P.get('threads_q'):
        return make_threads_q(seed, profile)
    if P.get('threads'):
        return make_threads(seed, profile)
    if P.get('keys'):
        return make_keys(seed, profile)
    if P.get('refuse'):
        return make_refuse(seed, profile)
    if P.get('structured') and seed % 2 == 1:
        return make_structured(seed, profile)
    rnd = random.Random('%s:%s' % (profile, seed))
    cache = ['k']
    if P.get('subcache'):         # one or two directory levels that the build has to create for the cache file
        cache = ['c', 'c2', 'k'] if seed % 3 == 0 else ['c', 'k']
    qpaths = list(UNIVERSE)
    targets = list(LEAVES)
    if P.get('foreign'):
        qpaths += FOREIGN
    if P.get('long'):
        targets = targets + LONGT
        qpaths += [['g', 'h']]
    if P.get('cache_q'):
        qpaths += [[], ['c'], ['c', 'c2'], ['c', 'q'], list(cache)] * 2
        targets = targets + [['c', 't']]
    orc = {
        # (no foreign regular file where the cache file's directories have to be: such a build cannot start)
        **({'extpaths': UNIVERSE + [['c', 'q'], ['c', 't'], ['c', 'q']]} if P.get('cache_q') else {}),
        'seed': seed,
        'qpaths': qpaths,
        'targets': targets,
        'fnames': {'0': ['f0a', 'f0b'], '1': ['f1a', 'f1b'], '2': ['f2a']},
        'maxstmts': rnd.choice(P.get('maxstmts', [2, 3, 4, 5])),
        'nargs': 2,
        'raise': P.get('raise', 10), 'nocreate': P.get('nocreate', 6), 'nonjson': P.get('nonjson', 2),
        'nocreate2': P.get('nocreate2', 0), 'fixed_mt': P.get('fixed_mt', 0), 'sizes': P.get('sizes', SIZES),
        'falsy_ret': P.get('falsy_ret', 0), 'base_raise': P.get('base_raise', 0), 'catch_base': P.get('catch_base', 0),
        'read_text': True,          # read_text next to declare_read / read_binary (regress files predate this key)
        'mut_light': P.get('mut_light', 0), 'q_spell': P.get('q_spell', 0), 'q_lead2': P.get('q_lead2', False), 'link_out': P.get('link_out', 0),
        'ext_links': P.get('ext_links', 0),
        'p_probe': int(100 * P.get('p_probe', 0) / 4),
    }
    if P.get('exotic'):
        qpaths = EXO_DIRS + EXO_LEAVES
        targets = list(EXO_LEAVES)
        universe = list(qpaths)
        orc['qpaths'] = qpaths
        orc['targets'] = targets
        orc['retpool'] = exotic_pool()
    if P.get('mutate'):
        orc['mutate'] = True
    if P.get('dup'):
        orc['targets'] = [['x'], ['d', 'y']]
        orc['fnames'] = {'0': ['f0a'], '1': ['f0a', 'f1a'], '2': ['f1a']}
        orc['nargs'] = 1
        orc['catch'] = 90
        orc['w_call'] = 45
        orc['w_q'] = 35
    if P.get('kinds'):
        orc['kinds'] = P['kinds']
    if P.get('w_read'):
        orc['kinds'] = ['read', 'read', 'read', 'is_file', 'list_dir', 'get_size']
    if P.get('q_leaves'):
        orc['qpaths'] = LEAVES + LEAVES + DIRS
    universe = [p for p in qpaths]

    def ext():
        if P.get('ext_meta') and rnd.random() < 0.7:
            p = rnd.choice(LEAVES if P.get('ext_leaves') else qpaths)
            do = rnd.choice(['touch', 'rewrite_keep_meta', 'rewrite_keep_meta', 'write'])
            st = {'op': 'ext', 'do': do, 'p': p}
            if do != 'touch':
                st['c'] = rnd.choice(CONTENTS + ['c7'])
            if do == 'write':
                st['sz'] = rnd.choice(SIZES)
            return st
        if P.get('p_rmtree') and rnd.random() < P['p_rmtree']:
            return {'op': 'ext', 'do': 'delete', 'p': rnd.choice(DIRS + [['d'], ['g']])}
        if P.get('foreign_at_targets') and rnd.random() < 0.5:
            return {'op': 'ext', 'do': 'write', 'p': rnd.choice(LEAVES + DIRS),
                    'c': rnd.choice(['c8', 'c9']), 'sz': rnd.choice(SIZES)}
        if P.get('foreign') and rnd.random() < 0.12:
            # a dangling symbolic link among the foreign things: no query sees it, but its directory is not empty
            return {'op': 'ext', 'do': 'dangle', 'p': rnd.choice(FOREIGN + [['d', 'dang'], ['g', 'dang'], ['d', 'e', 'dang']])}
        if P.get('foreign') and rnd.random() < 0.5:
            # (also names next to the cache file that a temp-file-and-rename or lock-file scheme might pick)
            return {'op': 'ext', 'do': 'write', 'p': rnd.choice(FOREIGN + [['kz'], ['k.tmp'], ['k.bak'], ['k.lock'], ['.k.tmp']]),
                    'c': rnd.choice(['c8', 'c9']), 'sz': rnd.choice(SIZES)}
        return rand_ext(rnd, orc, cache)

    def root_of(n):
        root = rand_root(rnd, orc, n, crash_pct=0)
        if P.get('p_uncaught') and rnd.random() < P['p_uncaught']:
            for st in root:
                if st['s'] in ('bf', 'sb'):
                    st['catch'] = False
        if P.get('p_probe'):
            out = []
            for st in root:
                out.append(st)
                if st['s'] != 'return' and rnd.random() < P['p_probe']:
                    out.insert(len(out) - 0, {'s': 'probe'})
            # keep the terminating return last
            root = [st for st in out if st['s'] != 'return'] + [{'s': 'return'}]
        return root

    steps = []
    for _ in range(rnd.randrange(0, 4)):
        steps.append(ext())
    nbuilds = rnd.choice(P.get('builds', [2, 3, 3, 4]))
    rl = P.get('root_len', [1, 5])
    base_root = root_of(rnd.randrange(rl[0], rl[1]))
    vers = {}
    for b in range(nbuilds):
        if rnd.random() < P.get('p_same_root', 0.7):
            root = [dict(st) for st in base_root]
        else:
            root = root_of(rnd.randrange(rl[0], rl[1]))
            base_root = root
        if rnd.random() < P.get('p_crash', 0.2):       # crash somewhere in the root function
            body = [st for st in root if st['s'] != 'return']
            k = rnd.randrange(len(body) + 1)
            root = body[:k] + [{'s': 'raise'}]
            if P.get('p_base') and rnd.random() < P['p_base']:
                root[-1]['base'] = True         # KeyboardInterrupt-like: not an Exception
        vers = dict(vers)
        if rnd.random() < P.get('p_vers', 0.25):
            f = rnd.choice(['f0a', 'f0b', 'f1a', 'f1b', 'f2a'])
            if f in vers and rnd.random() < 0.2:
                del vers[f]
            else:
                vers[f] = rnd.choice(exotic_pool() if P.get('exotic_vers') else VERSION_TERMS)
        bstep = {'op': 'build', 'name': 'B', 'vers': vers, 'root': root}
        if P.get('stale'):
            # stale calls inside the build (after nested calls ended) and after build() returned
            body = [st for st in root if st['s'] not in ('return', 'raise')]
            tail = [st for st in root if st['s'] in ('return', 'raise')]
            k = rnd.randrange(len(body) + 1)
            bstep['root'] = body[:k] + [{'s': 'stale', 'last': 3,
                                         'methods': rnd.sample(['exists', 'is_file', 'is_dir', 'list_dir', 'walk',
                                                                'get_size', 'declare_read', 'read_text', 'read_binary',
                                                                'build_file', 'subbuild',
                                                                'build_file_with_comparison'], 6),
                                         'p': rnd.choice([['sx'], ['d', 'sy'], ['x'], ['d', 'x']])}] + body[k:] + tail
            bstep['stale_after'] = rnd.randrange(1, 1 << 30)
        steps.append(bstep)
        if rnd.random() < P.get('p_clean', 0.15):
            steps.append({'op': 'clean', 'name': 'B'})
            if rnd.random() < P.get('p_double_clean', 0.1):
                steps.append({'op': 'clean', 'name': 'B'})
        for _ in range(rnd.choice(P.get('ext', [0, 0, 1, 1, 2, 3]))):
            steps.append(ext())
    if P.get('final_clean') or rnd.random() < max(0.3, P.get('p_clean', 0)):
        steps.append({'op': 'clean', 'name': 'B'})
        if rnd.random() < P.get('p_double_clean', 0.1):
            steps.append({'op': 'clean', 'name': 'B'})
    if P.get('p_probe'):
        universe = universe + [list(cache)]      # "probe all" also asks about the cache file itself (virtually absent)
    sc = {'id': '%s-%d' % (profile, seed), 'cache': cache, 'universe': universe, 'oracle': orc, 'steps': steps}
    if P.get('stale'):
        sc['stale'] = True
    return sc
