"""Property pipelines."""
import json
import os
import tempfile
import sys
import time

from . import gen, props, runner, tlc

SPECIAL = {}


def _finish(pid, tier, seed, t0, outs, mc_stats, rule, assumptions, extra_cov=None):
    """Common tail: print findings / violations, write evidence, pick exit code."""
    violations = []
    known = {}
    machinery = []
    others = []
    total = accepted = 0
    nontrivial = set()
    samples = []
    states = transitions = 0
    clause_hist = {}
    for o in outs:
        violations += o.violations
        for k, sid in o.known:
            known.setdefault(k, []).append(sid)
        machinery += o.machinery
        others += o.others
        total += o.total
        accepted += o.accepted
        nontrivial |= o.nontrivial
        samples += o.samples
        states += o.stats['distinct']
        transitions += o.stats['states']
        for c, n in o.clause_hist.items():
            clause_hist[c] = clause_hist.get(c, 0) + n
    for st in mc_stats:
        states += st.get('distinct', 0)
        transitions += st.get('states', 0)
    kfs = {k['id']: k for k in runner.load_known_findings()}
    for k, sids in sorted(known.items()):
        kf = kfs.get(k, {})
        if kf.get('status') == 'open' and kf.get('property') == pid:
            print('KNOWN-FINDING: property=%s %s [%s; %d scenario(s), e.g. %s]'
                  % (kf.get('property', pid), kf.get('what', k), k, len(sids), sids[0]))
    # re-run each violating scenario once more before reporting (DESIGN 4.1)
    reported = 0
    for sc, t, v in violations[:20]:
        if sc.get('recorded'):
            path = runner.write_replay(pid, sc, t, v)
            print('VIOLATION property=%s replay=%s clause=%s event=%d all=%s (%s)'
                  % (pid, path, v['clause'], v['at'], ','.join(v.get('also', [])),
                     'backup store binding: ' + str(v.get('detail', '')) if sc.get('backupbind')
                     else 'lock order over all threaded executions: ' + str(v.get('detail', '')) if sc.get('lockorder')
                     else 'recorded run of the repository test suite'))
            reported += 1
            continue
        t2 = runner._run_one(sc)
        v2, _ = tlc.validate([t2], jobs=1, open_kf=runner.open_kf_names())
        vv = v2[t2['id']]
        if vv['verdict'] != 'rejected' or vv['clause'] != v['clause'] or vv.get('also') != v.get('also'):
            machinery.append((sc['id'], 'violation did not reproduce: %s vs %s' % (v, vv)))
            continue
        path = runner.write_replay(pid, sc, t2, vv)
        print('VIOLATION property=%s replay=%s clause=%s event=%d all=%s'
              % (pid, path, v['clause'], v['at'], ','.join(v.get('also', []))))
        reported += 1
    demos = hunt_demos(pid)
    open_demo = {os.path.basename(os.path.dirname(k.get('demo', ''))): k for k in kfs.values()
                 if k.get('status') == 'open' and k.get('demo')}
    for name, rc, tail in demos:
        if name in open_demo:
            # an open known finding identified by its demonstration: reported as such while it still fails
            if rc == 1:
                print(open_demo[name]['line'] + ' [%s; hunts/%s/demo.py]' % (open_demo[name]['id'], name))
            elif rc != 0:
                machinery.append(('hunts/%s' % name, 'demo ended with status %s: %s' % (rc, tail[-600:])))
            continue
        if rc == 1:
            print('VIOLATION property=%s replay=%s clause=HuntDemo (the recorded demonstration of a repaired defect fails again: %s)'
                  % (pid, os.path.join(ROOT, 'hunts', name, 'demo.py'), tail[-300:].replace('\n', ' | ')))
            reported += 1
        elif rc != 0:
            machinery.append(('hunts/%s' % name, 'demo ended with status %s: %s' % (rc, tail[-600:])))
    cov = {
        'states': max(states, 0), 'transitions': max(transitions, 0),
        'traces_validated_against_impl': accepted,
        'evaluations': total, 'distinct_nontrivial': len(nontrivial), 'rule': rule,
        'samples': samples[:3] or [{'note': 'no non-trivial sample in this run'}],
        'rejected_by_clause': clause_hist,
        'other_clause_failures': others[:50],
        'known_findings_hit': {k: len(v) for k, v in known.items()},
        'machinery_failures': len(machinery),
        'unjudged_executions': sum(getattr(o, 'unjudged', 0) for o in outs),
        'tlc': {'trace_validation_jvms': sum(o.stats['jvms'] for o in outs), 'model_checking': mc_stats},
    }
    if extra_cov:
        cov.update(extra_cov)
    if demos:
        cov['hunt_demos'] = {name: rc for name, rc, _ in demos}
    runner.write_evidence(pid, tier, seed, cov, time.time() - t0, reported, assumptions)
    for m in machinery[:5]:
        print('MACHINERY-FAILURE', m[0], str(m[1])[:2000])
    if reported:
        return 1
    if machinery:
        return 2
    if states < 1 or accepted < 1:
        print('MACHINERY-FAILURE nothing was validated')
        return 2
    print('OK property=%s tier=%s scenarios=%d accepted=%d nontrivial=%d states=%d wall=%.1fs'
          % (pid, tier, total, accepted, len(nontrivial), states, time.time() - t0))
    return 0


ROOT = os.path.dirname(os.path.dirname(os.path.abspath(__file__)))


def hunt_demos(pid):
    """Auxiliary regression demos (DESIGN 8, bug hunts): the self-contained demonstration each bug hunt delivered
    for a defect that has since been repaired is run against the tree under test; exit status 1 = the defect is
    back.  A failing demo is run twice more and reported only if it fails every time."""
    import json
    import subprocess
    import sys
    try:
        idx = json.load(open(os.path.join(ROOT, 'hunts', 'INDEX.json')))['hunts']
    except OSError:
        return []
    repo = os.environ.get('FBV_REPO', '/repo')
    out = []
    for name, h in sorted(idx.items()):
        if h.get('property') != pid or h.get('status') not in ('fixed', 'open'):
            continue
        demo = os.path.join(ROOT, 'hunts', name, 'demo.py')
        rc, tail = None, ''
        for _ in range(3):
            try:
                p = subprocess.run([sys.executable, demo], env=dict(os.environ, FB_PATH=repo, PYTHONPATH=''),
                                   stdout=subprocess.PIPE, stderr=subprocess.STDOUT, text=True, timeout=600,
                                   cwd=tempfile.gettempdir())
                rc, tail = p.returncode, p.stdout
            except subprocess.TimeoutExpired:
                rc, tail = 124, 'timeout'
            if rc != 1:
                break
        out.append((name, rc, tail))
    return out


ASSUME = [
    'TLC 1.8 evaluates the specification correctly',
    'the harness projection (sandbox.py: snapshot, content ids, logical mtimes) is faithful',
    'user functions touch relevant files only through the builder (guaranteed by the interpreter)',
    'small scope: <= 4 path components, <= 4 builds per history, nesting depth <= 3',
]


def scenarios_for(pid, tier, seed, scale):
    P = props.PROPS[pid]
    scs = []
    for prof, nq, nt in P['units']:
        if prof == 'regress':
            from .main import load_regress
            for sc in load_regress():
                sc = dict(sc)
                sc['id'] = sc['id'] + '@' + pid
                scs.append(sc)
            continue
        n = int((nq if tier == 'quick' else nt) * scale)
        base = seed * 1_000_000
        for i in range(n):
            scs.append(gen.make_scenario(base + i, prof))
    return scs


def design_level(pid, tier, seed, scale):
    """TLC on the contract itself (FBRefMC): exhaustive small configurations, plus simulation that
    exports behaviours for replay on the real code.  Returns (mc_stats, scenarios, machinery)."""
    from . import fromtlc
    P = props.PROPS[pid]
    stats, scs, mach = [], [], []
    jobs = P.get('mc_quick', ['MC_quick.cfg']) if tier == 'quick' else \
        P.get('mc_quick', ['MC_quick.cfg']) + P.get('mc_thorough', [])
    for job in jobs:
        if isinstance(job, str):
            cfg, tmo, module = job, 900, 'FBRefMC.tla'
        elif len(job) == 2:
            cfg, tmo, module = job[0], job[1], 'FBRefMC.tla'
        else:
            cfg, tmo, module = job
        try:
            ok, st, out = tlc.model_check(cfg, module, workers=16, timeout=tmo + 60,
                                          extra=(), heap='12g', soft_timeout=tmo)
        except Exception as x:      # noqa
            mach.append(('mc:' + cfg, repr(x)[:1000]))
            continue
        st['cfg'] = cfg
        st['module'] = module
        st['exhaustive'] = bool(ok and not st.get('timed_out'))
        stats.append(st)
        if not ok and not st.get('timed_out'):
            mach.append(('mc:' + cfg, 'TLC reports an error in the contract model:\n' + out[-3000:]))
    if P.get('apalache') and tier == 'thorough':
        # unbounded complement of a mechanism model: an inductive invariant discharged by Apalache
        try:
            aok, det = tlc.apalache_inductive(*P['apalache'])
        except Exception as x:      # noqa
            aok, det = False, [{'error': repr(x)[:800]}]
        stats.append({'cfg': 'apalache inductive invariant %s of %s' % (P['apalache'][2], P['apalache'][0]),
                      'module': P['apalache'][0], 'exhaustive': aok, 'obligations': det, 'states': 0, 'distinct': 0})
        if not aok:
            mach.append(('apalache:' + P['apalache'][0], 'inductive invariant not discharged: %s' % det))
    if P.get('json_mc'):
        for cfg in ('JsonVal_pairs.cfg',):
            ok, st, out = tlc.model_check(cfg, 'JsonValMC.tla', workers=16, timeout=600, heap='8g')
            st['cfg'] = cfg
            st['exhaustive'] = ok
            stats.append(st)
            if not ok:
                mach.append(('mc:' + cfg, 'JsonValMC law fails:\n' + out[-2500:]))
    sims = P.get('sim', ('MC_sim.cfg', 100, 1500, 60))
    sims = [] if not sims else [sims] if isinstance(sims, tuple) else list(sims)
    for cfg, nq, nt, depth in sims:
        num = max(1, int((nq if tier == 'quick' else nt) * scale))
        hists, st, ok, errs = fromtlc.simulate_parallel(cfg, num, depth, seed)
        st['cfg'] = cfg + ' (simulate, 16 x num=%d depth=%d)' % (num, depth)
        st['behaviours_exported'] = len(hists)
        stats.append(st)
        if not ok:
            mach.append(('sim:' + cfg, 'TLC simulation reports an error in the contract model:\n' + errs[0]))
        cap = 3000 if tier == 'quick' else 40000
        st['behaviours_replayed'] = min(cap, len(hists))
        if len(hists) > cap:
            import random
            random.Random(seed).shuffle(hists)
            hists = hists[:cap]
        tag = cfg[3:-4] if cfg.startswith('MC_') else cfg
        for i, h in enumerate(hists):
            scs.append(fromtlc.scenario_of(h, 'tlc-%s-%s-%d-%d' % (pid, tag, seed, i)))
    return stats, scs, mach


def run_scenario_property(pid, tier, seed, scale=1.0, extra_outs=(), mc_stats=(), extra_cov=None):
    t0 = time.time()
    P = props.PROPS[pid]
    scs = scenarios_for(pid, tier, seed, scale)
    dstats, dscs, dmach = design_level(pid, tier, seed, scale)
    mc_stats = list(mc_stats) + dstats
    scs = dscs + scs
    owned = set(P['owned'])
    outs = list(extra_outs)
    # validate in chunks to bound memory
    CH = 6000
    for i in range(0, len(scs), CH):
        o = runner.judge(pid, scs[i:i + CH], owned, P['nontrivial'], tlc)
        if P.get('after_rollback_all'):
            keep = []
            for x in o.others:
                keep.append(x)
            o.others = keep
        outs.append(o)
    if dmach:
        o = runner.Outcome()
        o.machinery = dmach
        outs.append(o)
    return _finish(pid, tier, seed, t0, outs, list(mc_stats), P['rule'], ASSUME, extra_cov)


def fault_variants(profile, n, seed, per_scenario, tag, fault_calls=None, scope=None):
    """Base histories run once under the interposer to *measure* the eligible library calls
    (mkdir / makedirs / rename / cache open+write), then one variant per chosen fault point."""
    import copy
    import random
    base = []
    for i in range(n):
        sc = gen.make_scenario(seed * 1_000_000 + i, profile)
        sc['interpose'] = True
        if fault_calls:
            sc['fault_calls'] = list(fault_calls)
        if scope:
            sc['fault_scope'] = scope
        sc['id'] = '%s-%s' % (tag, sc['id'])
        base.append(sc)
    traces = runner.run_scenarios(base)
    out = list(base)
    rnd = random.Random('faults:%d' % seed)
    for sc, t in zip(base, traces):
        n_el = t.get('eligible', 0)
        if not n_el:
            continue
        ks = list(range(1, n_el + 1))
        if per_scenario and len(ks) > per_scenario:
            ks = sorted(rnd.sample(ks, per_scenario))
        for k in ks:
            v = copy.deepcopy(sc)
            v['fault_at'] = k
            v['id'] = '%s@k%d' % (sc['id'], k)
            out.append(v)
    return out


def schedule_variants(profile, n, seed, singles, pairs, tag, full_pairs=0):
    """Base concurrent histories are run once without preemption to *measure* the yield points of each
    thread in each `par` statement; variants add one or two preemptions at measured yield points."""
    import copy
    import random
    base = []
    for i in range(n):
        sc = gen.make_scenario(seed * 1_000_000 + i, profile)
        sc['id'] = '%s-%s' % (tag, sc['id'])
        base.append(sc)
    traces = runner.run_scenarios(base)
    out = list(base)
    # histories with the canonical race shape first: they get the full pair enumeration
    order = sorted(range(len(base)), key=lambda ix: (not base[ix].get('combo'), ix))
    base = [base[ix] for ix in order]
    traces = [traces[ix] for ix in order]
    full = {'n': full_pairs}
    rnd = random.Random('sched:%d' % seed)
    for sc, t in zip(base, traces):
        pars = t.get('par') or []
        # indices of build steps that contain a par statement, in execution order
        par_steps = [ix for ix, st in enumerate(sc['steps']) if st['op'] == 'build'
                     and (st.get('straggler') or any(x.get('s') == 'par' for x in st.get('root', [])))]
        for pi, info in enumerate(pars[:len(par_steps)]):
            pts = [(th, k) for th, y in enumerate(info['yields']) for k in range(1, y + 1)]
            if not pts:
                continue
            chosen = pts if singles == 0 else rnd.sample(pts, min(singles, len(pts)))
            sets = [[p] for p in chosen]
            for _ in range(pairs):
                a, b = rnd.choice(pts), rnd.choice(pts)
                sets.append([a, b])
                sets.append([a, b, rnd.choice(pts)])
            if sc.get('qdep_triples'):
                # a query racing a failing build_file on the same path (D43): the query thread stops at k1, the
                # builder runs to k2 (its file is on disk), the query thread goes on to k3, the builder finishes
                # (its directories are virtually removed), the query thread finishes - every such triple, up to a cap
                brs = [x for x in sc['steps'][par_steps[pi]]['root'] if x.get('s') == 'par'][0]['branches']
                qi = [i for i, b in enumerate(brs) if b.get('s') == 'q'][0]
                bi = 1 - qi
                trip = [[(qi, k1), (bi, k2), (qi, k3)]
                        for k1 in range(1, info['yields'][qi] + 1)
                        for k3 in range(k1 + 1, info['yields'][qi] + 1)
                        for k2 in range(1, info['yields'][bi] + 1)]
                cap = sc['qdep_triples']
                sets += trip if len(trip) <= cap else rnd.sample(trip, cap)
            if sc['steps'][par_steps[pi]].get('straggler'):
                # preemptions of the owner (thread 0) only, counted from the hand-off on
                o_pts = [p for p in pts if p[0] == 0]
                s_pts = [p for p in pts if p[0] == 1] or [(1, 1)]
                sets = [[p] for p in o_pts]
                # the straggler is preempted inside one of its calls as well (check -> effect -> append windows)
                sets += [[rnd.choice(o_pts), (1, k)] for k in range(1, min(40, max(x[1] for x in s_pts) + 8))] if o_pts else []
                sets += [[rnd.choice(o_pts), rnd.choice(o_pts), (1, rnd.randrange(1, 30))] for _ in range(10)] if o_pts else []
                if singles:
                    sets = rnd.sample(sets, min(singles * 3, len(sets)))
            for si, ps in enumerate(sets):
                v = copy.deepcopy(sc)
                if v['steps'][par_steps[pi]].get('straggler'):
                    v['steps'][par_steps[pi]]['straggler']['preempt'] = [list(p) for p in ps]
                for x in v['steps'][par_steps[pi]]['root']:
                    if x.get('s') == 'par':
                        x['preempt'] = [list(p) for p in ps]
                v['id'] = '%s@p%d.%d' % (sc['id'], pi, si)
                out.append(v)
            # systematic: every pair {(0, k1), (1, k2)} - thread 0 runs to its k1-th yield point, thread 1 to its
            # k2-th, then thread 0 finishes, then thread 1 - for the first `full_pairs` two-thread histories
            first_par = pi == min(i for i, _ in enumerate(pars[:len(par_steps)]))
            has_pre = any(st['op'] == 'build' for st in sc['steps'][:par_steps[pi]])
            if (not sc['steps'][par_steps[pi]].get('straggler') and len(info['yields']) == 2 and full['n'] > 0
                    and first_par and (not has_pre or full['n'] % 3 == 0)
                    and info['yields'][0] * info['yields'][1] <= 2500):
                full['n'] -= 1
                for k1 in range(1, info['yields'][0] + 1):
                    for k2 in range(1, info['yields'][1] + 1):
                        v = copy.deepcopy(sc)
                        for x in v['steps'][par_steps[pi]]['root']:
                            if x.get('s') == 'par':
                                x['preempt'] = [[0, k1], [1, k2]]
                        v['id'] = '%s@f%d.%d.%d' % (sc['id'], pi, k1, k2)
                        out.append(v)
            # random-priority schedules
            for ri in range(0 if sc['steps'][par_steps[pi]].get('straggler') else (2 if singles else 6)):
                v = copy.deepcopy(sc)
                for x in v['steps'][par_steps[pi]]['root']:
                    if x.get('s') == 'par':
                        x['rseed'] = rnd.randrange(1 << 30)
                        x['p_switch'] = rnd.choice([0.05, 0.15, 0.4])
                v['id'] = '%s@r%d.%d' % (sc['id'], pi, ri)
                out.append(v)
    return out


def run_thread_property(pid, tier, seed, scale=1.0):
    t0 = time.time()
    P = props.PROPS[pid]
    nq, nt, sq, st_, pq, pt = P['thread_units']
    n = int((nq if tier == 'quick' else nt) * scale)
    scs = schedule_variants(P.get('thread_profile', 'threads'), n, seed, sq if tier == 'quick' else st_,
                            pq if tier == 'quick' else pt, pid)
    dstats, dscs, dmach = design_level(pid, tier, seed, scale)
    outs = []
    if dmach:
        o = runner.Outcome()
        o.machinery = dmach
        outs.append(o)
    CH = 6000
    for i in range(0, len(scs), CH):
        outs.append(runner.judge(pid, scs[i:i + CH], set(P['owned']), P['nontrivial'], tlc))
    return _finish(pid, tier, seed, t0, outs, dstats, P['rule'], ASSUME + [
        'schedules = preemptions at measured yield points (interposed OS calls, lock acquire/release) of real '
        'threads under a cooperative scheduler; preemptions inside pure Python code between yield points are not explored',
        'operations issued concurrently are independent (as the property states); the recorded run is judged against '
        'the sequential contract in claim order'])


def run_fault_property(pid, tier, seed, scale=1.0):
    t0 = time.time()
    P = props.PROPS[pid]
    nq, nt, per_q, per_t = P['fault_units']
    n = int((nq if tier == 'quick' else nt) * scale)
    scs = fault_variants(P.get('fault_profile', 'fault'), n, seed, per_q if tier == 'quick' else per_t, pid,
                         P.get('fault_calls'))
    for prof, q, t in P.get('units', []):
        if prof == 'regress':
            from .main import load_regress
            for sc in load_regress():
                sc = dict(sc)
                sc['id'] = sc['id'] + '@' + pid
                scs.append(sc)
            continue
        m = int((q if tier == 'quick' else t) * scale)
        scs += [gen.make_scenario(seed * 1_000_000 + i, prof) for i in range(m)]
    dstats, dscs, dmach = design_level(pid, tier, seed, scale)
    scs = dscs + scs
    outs = []
    if dmach:
        o = runner.Outcome()
        o.machinery = dmach
        outs.append(o)
    CH = 6000
    for i in range(0, len(scs), CH):
        outs.append(runner.judge(pid, scs[i:i + CH], set(P['owned']), P['nontrivial'], tlc))
    return _finish(pid, tier, seed, t0, outs, dstats, P['rule'], ASSUME + [
        'fault space = the library\'s own mkdir/makedirs/rename/cache-open/cache-write calls issued before '
        'commit or rollback starts (C14 statement); one fault per execution'])


def repo_test_traces(tag):
    """Run the repository's own test suite under the recorder (harness/recorder.py) and return the
    recorded API-level traces (code -> spec for client code nobody here wrote).  Returns (traces, info)."""
    import subprocess
    import tempfile
    repo = os.environ.get('FBV_REPO', '/repo')
    fd, out = tempfile.mkstemp(prefix='fbv_rec_', suffix='.ndjson', dir=runner_scratch())
    os.close(fd)
    try:
        env = dict(os.environ, FBV_RECORD_OUT=out, PYTHONDONTWRITEBYTECODE='1', PYTHONPATH=runner.VERIF + ':' + repo)
        py = '/venv/bin/python' if os.path.exists('/venv/bin/python') else sys.executable
        p = subprocess.run([py, '-m', 'pytest', '-q', '-p', 'harness.recorder', '-p', 'no:cacheprovider',
                            '-x', '--timeout=900', os.path.join(repo, 'file_builder', 'test')], cwd=repo, env=env,
                           stdout=subprocess.PIPE, stderr=subprocess.STDOUT, text=True, timeout=1200)
        traces, unj = [], []
        if os.path.exists(out):
            with open(out) as f:
                for line in f:
                    t = json.loads(line)
                    t['id'] = 'repotest-%s-%s' % (tag, t['id'])
                    if t.get('unjudged'):
                        unj.append((t['id'], t['unjudged']))
                    elif t['events']:
                        traces.append(t)
        info = {'pytest_tail': p.stdout.strip().splitlines()[-1:] if p.stdout else [], 'judged': len(traces),
                'unjudged': unj}
        return traces, info
    finally:
        try:
            os.remove(out)
        except OSError:
            pass


def sample_traces(tag, count, seed):
    """Random histories of the repository's gzip sample (unmodified client code) under the recorder."""
    import subprocess
    import tempfile
    repo = os.environ.get('FBV_REPO', '/repo')
    fd, out = tempfile.mkstemp(prefix='fbv_gz_', suffix='.ndjson', dir=runner_scratch())
    os.close(fd)
    try:
        py = '/venv/bin/python' if os.path.exists('/venv/bin/python') else sys.executable
        env = dict(os.environ, PYTHONDONTWRITEBYTECODE='1', PYTHONPATH=runner.VERIF + ':' + repo)
        p = subprocess.run([py, '-m', 'harness.samples_driver', out, str(count), str(seed)], cwd=runner.VERIF, env=env,
                           stdout=subprocess.PIPE, stderr=subprocess.STDOUT, text=True, timeout=1800)
        traces = []
        with open(out) as f:
            for line in f:
                t = json.loads(line)
                t['id'] = 'sample-%s-%s' % (tag, t['id'])
                if not t.get('unjudged') and t['events']:
                    traces.append(t)
        if not traces:
            raise RuntimeError('samples driver produced no trace: %s' % p.stdout[-800:])
        return traces
    finally:
        try:
            os.remove(out)
        except OSError:
            pass


def runner_scratch():
    from .sandbox import scratch_root
    return scratch_root()


def run_property(pid, tier, seed, scale=1.0):
    """Scenario units (random / structured / regress), fault-injection variants, schedule variants and
    the design-level TLC jobs of one property, all validated against the contract."""
    t0 = time.time()
    P = props.PROPS[pid]
    scs = scenarios_for(pid, tier, seed, scale)
    assume = list(ASSUME)
    if P.get('fault_units'):
        nq, nt, per_q, per_t = P['fault_units']
        n = int((nq if tier == 'quick' else nt) * scale)
        fprofs = P.get('fault_profile', 'fault')
        fprofs = [fprofs] if isinstance(fprofs, str) else list(fprofs)
        for fp_ in fprofs:
            scs += fault_variants(fp_, max(1, n // len(fprofs)), seed, per_q if tier == 'quick' else per_t, pid,
                                  P.get('fault_calls'))
    if P.get('fault_units') or P.get('fault_extra'):
        for fx in P.get('fault_extra', []):
            prof, xq, xt, xpq, xpt = fx[:5]
            fcalls = fx[5] if len(fx) > 5 else P.get('fault_calls')
            scs += fault_variants(prof, max(1, int((xq if tier == 'quick' else xt) * scale)), seed,
                                  xpq if tier == 'quick' else xpt, pid + '-' + prof if len(fx) > 5 else pid, fcalls,
                                  fx[6] if len(fx) > 6 else None)
        assume.append('fault space = the library\'s own mkdir/makedirs/rename/cache-open/cache-write calls issued '
                      'before commit or rollback starts (C14 statement); one fault per execution')
    if P.get('thread_units'):
        nq, nt, sq, st_, pq, pt = P['thread_units']
        n = int((nq if tier == 'quick' else nt) * scale)
        fp = P.get('full_pairs', (0, 0))
        scs += schedule_variants(P.get('thread_profile', 'threads'), n, seed, sq if tier == 'quick' else st_,
                                 pq if tier == 'quick' else pt, pid, fp[0] if tier == 'quick' else fp[1])
    if P.get('thread_units') or P.get('thread_extra'):
        for prof, xq, xt, xsq, xst, xpq, xpt, xfq, xft in P.get('thread_extra', []):
            scs += schedule_variants(prof, int((xq if tier == 'quick' else xt) * scale), seed,
                                     xsq if tier == 'quick' else xst, xpq if tier == 'quick' else xpt, pid,
                                     xfq if tier == 'quick' else xft)
        assume += ['schedules = preemptions at measured yield points (interposed OS calls, lock acquire/release) of '
                   'real threads under a cooperative scheduler; preemptions inside pure Python code between yield '
                   'points are not explored',
                   'operations issued concurrently are independent (as the property states); the recorded run is '
                   'judged against the sequential contract in claim order']
    dstats, dscs, dmach = design_level(pid, tier, seed, scale)
    scs = dscs + scs
    if P.get('fslog'):
        for sc in scs:          # C03: log the library's own rename / remove / replace / rmdir calls as events
            sc['interpose'] = True
            sc['fslog'] = True
        assume.append('the call log covers os.rename / os.remove / os.replace / os.rmdir as seen by the library modules')
    outs = []
    if dmach:
        o = runner.Outcome()
        o.machinery = dmach
        outs.append(o)
    CH = 6000
    for i in range(0, len(scs), CH):
        outs.append(runner.judge(pid, scs[i:i + CH], set(P['owned']), P['nontrivial'], tlc))
    extra_cov = None
    if P.get('repotests'):
        try:
            rt, info = repo_test_traces(pid)
            if not rt:
                raise RuntimeError('the recorder produced no trace: %s' % info)
            outs.append(runner.judge_traces(pid, rt, set(P['owned']), tlc))
            extra_cov = {'repository_test_suite_traces': info}
        except Exception as x:      # noqa
            o = runner.Outcome()
            o.machinery = [('repotests', repr(x)[:1500])]
            outs.append(o)
    if P.get('thread_units'):
        # lock-order relation over all threaded executions of this check (spec/LockOrder.tla)
        from . import lockorder
        edges, same = set(), set()
        for o in outs:
            edges |= getattr(o, 'lock_edges', set())
            same |= getattr(o, 'lock_same', set())
        o = runner.Outcome()
        o.total = 1
        try:
            clause, detail, n_edges = lockorder.judge(edges, same)
        except Exception as x:      # noqa
            clause, detail, n_edges = 'H:lockorder', repr(x)[:1500], 0
        if clause == '':
            o.accepted = 1
        elif clause.startswith('H:'):
            o.machinery = [('lockorder', detail)]
        else:
            lsc = {'id': 'lockorder', 'recorded': True, 'lockorder': {'edges': sorted(edges), 'same': sorted(same)}, 'steps': []}
            o.violations.append((lsc, {'id': 'lockorder', 'events': []},
                                 {'verdict': 'rejected', 'clause': clause, 'at': 0, 'also': [clause], 'detail': detail,
                                  'st': {}, 'kf': []}))
            o.clause_hist[clause] = 1
        outs.append(o)
        extra_cov = dict(extra_cov or {}, lock_order={'held_before_edges': sorted(map(list, edges)),
                                                     'nested_same_role': sorted(map(list, same)),
                                                     'spec': 'LockOrder: acyclic, agrees with the documented order'})
    if P.get('backupbind'):
        # mechanism-level binding of spec/FBBackup.tla (slot naming, restore_all) to FileBackups
        from . import backupbind
        nfiles = P['backupbind'][0] if tier == 'quick' else P['backupbind'][1]
        o = runner.Outcome()
        o.total = 1
        try:
            clause, detail, bst = backupbind.run(nfiles)
        except Exception as x:      # noqa
            clause, detail, bst = 'H:backupbind', repr(x)[:1500], {}
        if clause == '':
            o.accepted = 1
            o.stats['states'] += bst.get('states', 0)
            o.stats['distinct'] += bst.get('distinct', 0)
            o.stats['jvms'] += 1
        elif clause.startswith('H:'):
            o.machinery = [('backupbind', detail)]
        else:
            bsc = {'id': 'backupbind-%d' % nfiles, 'recorded': True, 'backupbind': nfiles, 'steps': []}
            o.violations.append((bsc, {'id': bsc['id'], 'events': []},
                                 {'verdict': 'rejected', 'clause': clause, 'at': 0, 'also': [clause], 'detail': detail,
                                  'st': {}, 'kf': []}))
            o.clause_hist[clause] = 1
        outs.append(o)
        extra_cov = dict(extra_cov or {}, backup_store_binding={'files_moved_aside_and_restored': nfiles,
                                                               'spec': 'FBBackup!Name via FBBackupTrace'})
    if P.get('samples'):
        try:
            n = int((P['samples'][0] if tier == 'quick' else P['samples'][1]) * scale)
            st = sample_traces(pid, n, seed)
            outs.append(runner.judge_traces(pid, st, set(P['owned']), tlc))
            extra_cov = dict(extra_cov or {}, gzip_sample_histories=len(st))
        except Exception as x:      # noqa
            o = runner.Outcome()
            o.machinery = [('samples', repr(x)[:1500])]
            outs.append(o)
    return _finish(pid, tier, seed, t0, outs, dstats, P['rule'], assume, extra_cov)


def replay(pid, path):
    if pid == 'C18':
        return replay_c18(path)
    with open(path) as f:
        d = json.load(f)
    sc = d['scenario']
    if sc.get('lockorder'):
        from . import lockorder
        clause, detail, n = lockorder.judge(sc['lockorder']['edges'], sc['lockorder']['same'])
        print('lock order, %d edges: %s %s' % (n, clause or 'accepted', detail))
        if clause:
            print('VIOLATION property=%s replay=%s clause=%s' % (pid, path, clause))
            return 1
        return 0
    if sc.get('backupbind'):
        from . import backupbind
        clause, detail, _ = backupbind.run(sc['backupbind'])
        print('backup store binding, %d files: %s %s' % (sc['backupbind'], clause or 'accepted', detail))
        if clause:
            print('VIOLATION property=%s replay=%s clause=%s' % (pid, path, clause))
            return 1
        return 0
    t = runner._run_one(sc)
    v, _ = tlc.validate([t], jobs=1, open_kf=runner.open_kf_names())
    vv = v[t['id']]
    from .explain import pretty
    print(pretty(t, vv))
    print('VERDICT', vv)
    if vv['verdict'] == 'rejected':
        print('VIOLATION property=%s replay=%s clause=%s' % (pid, path, vv['clause']))
        return 1
    return 0


def selftest(with_mutants=True):
    """Show that the binding binds (DESIGN 3.5): corrupted / truncated traces are rejected at the right
    event, the mechanism models find the known races when the repairs are switched off, and every seeded
    change in /verif/seeded is caught by the check of the property it breaks (run on a scratch copy)."""
    import copy
    import glob
    import shutil
    import subprocess
    import tempfile
    ok = True
    t = None
    for sd in range(200):       # a base trace with an invocation, a reuse and a committed build
        sc = gen.make_scenario(sd, 'rebuild')
        t = runner._run_one(sc)
        evs = t['events']
        if any(e['ev'] == 'invoke' for e in evs) and any(e['ev'] == 'bf_end' and not e['inv'] and e['out'] == 'ok' for e in evs) \
                and any(e['ev'] == 'q' and e['res'].get('ok') and isinstance(e['res'].get('v'), bool) for e in evs):
            break
    v, _ = tlc.validate([t], jobs=1, open_kf=runner.open_kf_names())
    base = v[t['id']]
    print('selftest: base trace', base['verdict'], len(t['events']), 'events')
    ok &= base['verdict'] == 'accepted'
    variants = []
    # (1) corrupt one logged field
    for i, e in enumerate(t['events']):
        if e['ev'] == 'q' and e['res'].get('ok') and isinstance(e['res'].get('v'), bool):
            t2 = copy.deepcopy(t)
            t2['id'] = 'corrupt-answer-%d' % i
            t2['events'][i]['res']['v'] = not e['res']['v']
            variants.append((t2, i + 1, 'AnswerMatches'))
            break
    for i, e in enumerate(t['events']):
        if e['ev'] in ('bf_end', 'sb_end') and not e['inv'] and e['out'] == 'ok':
            t2 = copy.deepcopy(t)
            t2['id'] = 'corrupt-inv-%d' % i
            t2['events'][i]['ret'] = {'k': 'str', 's': 'tampered'}
            variants.append((t2, i + 1, 'PersistedEqualsReturned'))
            break
    for i, e in enumerate(t['events']):
        if e['ev'] == 'build_end' and e['out'] == 'returned' and len(e['disk']) > 2:
            t2 = copy.deepcopy(t)
            t2['id'] = 'corrupt-snapshot-%d' % i
            t2['events'][i]['disk'] = [x for x in e['disk'] if x['p'] != e['disk'][-1]['p'] or x['p'] == ['k']][:-1] \
                if e['disk'][-1]['p'] != ['k'] else e['disk'][:-2] + e['disk'][-1:]
            variants.append((t2, i + 1, None))
            break
    # (2) remove one event (an invocation): the following events no longer fit
    for i, e in enumerate(t['events']):
        if e['ev'] == 'invoke':
            t2 = copy.deepcopy(t)
            t2['id'] = 'drop-invoke-%d' % i
            del t2['events'][i]
            variants.append((t2, None, None))
            break
    vv, _ = tlc.validate([x[0] for x in variants], jobs=4, open_kf=runner.open_kf_names())
    for t2, at, clause in variants:
        r = vv[t2['id']]
        good = r['verdict'] == 'rejected' and (at is None or r['at'] == at) and (clause is None or r['clause'] == clause)
        print('selftest: %-28s -> %s at %s clause %s %s' % (t2['id'], r['verdict'], r['at'], r['clause'], 'OK' if good else 'UNEXPECTED'))
        ok &= good
    # (3) the mechanism models have teeth
    for cfg, module, inv in [('Conc_A_noD7.cfg', 'FBConcMC.tla', 'DirsOwned'), ('Conc_B_noD16.cfg', 'FBConcMC.tla', 'WinnerOutputIntact'),
                             ('Fence_root_late.cfg', 'FBFence.tla', 'RootReturnedBeforeWrite'),
                             ('Backup_nonatomic.cfg', 'FBBackup.tla', 'SlotsDistinct'),
                             ('Backup_twice.cfg', 'FBBackup.tla', 'RestoreGivesOldest'),
                             ('Backup_twice_other.cfg', 'FBBackup.tla', 'RestoreGivesOldest'),
                             ('Backup_twice_appendfirst.cfg', 'FBBackup.tla', 'RestoreGivesOldest'),
                             ('Hash_noD26.cfg', 'FBHash.tla', 'RecordedFresh')]:
        good, st, out = tlc.model_check(cfg, module, workers=8, timeout=300)
        hit = ('Invariant %s is violated' % inv) in out
        print('selftest: %-22s expects violation of %-24s -> %s' % (cfg, inv, 'found' if hit else 'NOT FOUND'))
        ok &= hit
    # (4) seeded changes
    if with_mutants:
        only = [x for x in os.environ.get('FBV_SELFTEST_ONLY', '').split(',') if x]     # a subset of the seeds, by name
        for d in sorted(glob.glob(os.path.join(runner.VERIF, 'seeded', '*'))):
            if only and os.path.basename(d) not in only:
                continue
            meta = json.load(open(os.path.join(d, 'meta.json')))
            pid = meta.get('breaks_property') or meta['property']
            if meta.get('obsolete'):
                print('selftest: seeded %-10s skipped (obsolete: %s)' % (os.path.basename(d), meta['obsolete'][:90]))
                continue
            if meta.get('not_caught'):
                print('selftest: seeded %-10s KNOWN MISS (%s)' % (os.path.basename(d), meta['not_caught'][:110]))
                continue
            wt = tempfile.mkdtemp(prefix='fbv_mut_', dir='/tmp')
            outd = tempfile.mkdtemp(prefix='fbv_mutout_', dir='/tmp')
            try:
                subprocess.run(['git', '-C', os.environ.get('FBV_REPO', '/repo'), 'worktree', 'add', '-q', '--detach',
                                '-f', wt, 'HEAD'], check=True)
                a = subprocess.run(['git', '-C', wt, 'apply', os.path.join(d, 'patch.diff')])
                if a.returncode != 0:
                    print('selftest: %-10s patch no longer applies (skipped)' % os.path.basename(d))
                    continue
                env = dict(os.environ, FBV_REPO=wt, FBV_OUT_DIR=outd, PYTHONPATH=runner.VERIF + ':' + wt)
                p = subprocess.run([os.path.join(runner.VERIF, 'check'), pid, '--tier', 'quick'], env=env,
                                   stdout=subprocess.PIPE, stderr=subprocess.STDOUT, text=True)
                n = p.stdout.count('VIOLATION property=%s' % pid)
                print('selftest: seeded %-10s breaks %s -> exit %d, %d VIOLATION line(s) %s'
                      % (os.path.basename(d), pid, p.returncode, n, 'OK' if p.returncode == 1 and n else 'MISSED'))
                ok &= (p.returncode == 1 and n > 0)
            finally:
                subprocess.run(['git', '-C', os.environ.get('FBV_REPO', '/repo'), 'worktree', 'remove', '--force', wt])
                shutil.rmtree(wt, ignore_errors=True)
                shutil.rmtree(outd, ignore_errors=True)
    print('SELFTEST', 'PASSED' if ok else 'FAILED')
    return 0 if ok else 1


# ---------------------------------------------------------------------------
# C18: JSON helper laws
def check_c18(tier, seed, scale=1.0):
    import json as _json
    from . import jsonbind
    from file_builder.json_util import JsonUtil
    t0 = time.time()
    pid = 'C18'
    mc_stats = []
    mach = []
    jobs = [('JsonVal_pairs.cfg', 600), ('JsonVal_triples.cfg', 600)]
    for cfg, tmo in jobs:
        ok, st, out = tlc.model_check(cfg, 'JsonValMC.tla', workers=16, timeout=tmo, heap='8g')
        st['cfg'] = cfg
        st['exhaustive'] = ok
        mc_stats.append(st)
        if not ok:
            mach.append((cfg, 'JsonValMC: a law of the JSON value algebra fails in the specification itself\n' + out[-2500:]))
    n_rand = int((300 if tier == 'quick' else 2500) * scale)
    pool = jsonbind.base_pool() + jsonbind.random_values(seed, n_rand)
    # de-duplicate by type-exact rendering, keep order
    seen, uniq = set(), []
    for v in pool:
        k = terms_show(v)
        if k not in seen:
            seen.add(k)
            uniq.append(v)
    pool = uniq
    violations = []
    states = sum(s.get('distinct', 0) for s in mc_stats)
    transitions = sum(s.get('states', 0) for s in mc_stats)
    validated = 0
    samples = []
    try:
        verdicts, st, vals = jsonbind.run(pool, jsonbind.NON_JSON, JsonUtil)
        states += st['distinct']
        transitions += st['states']
        seen_hdr = set()
        for kind, clause, idx in verdicts:
            if kind == 'header':
                if clause and (clause, idx) not in seen_hdr:
                    seen_hdr.add((clause, idx))
                    violations.append((clause, idx, vals[idx - 1]))
            else:
                if clause:
                    violations.append((clause, idx, vals[idx - 1]))
                else:
                    validated += 1
        samples = [{'value': repr(v)[:120], 'term': terms_to(v)} for v in pool[300:303]]
    except Exception as x:
        mach.append(('jsonbind', repr(x)[:2500]))
    reported = 0
    os.makedirs(runner.REPLAY_DIR, exist_ok=True)
    for clause, idx, v in violations[:20]:
        if clause.startswith('H:'):
            mach.append(('jsonbind', '%s for value %r' % (clause, v)))
            continue
        path = os.path.join(runner.REPLAY_DIR, 'C18_%s_%d.json' % (clause, idx))
        with open(path, 'w') as f:
            _json.dump({'property': pid, 'clause': clause, 'value_repr': repr(v), 'term': terms_to(v),
                        'pool_index': idx, 'seed': seed, 'tier': tier}, f, indent=1)
        print('VIOLATION property=%s replay=%s clause=%s value=%s' % (pid, path, clause, repr(v)[:80]))
        reported += 1
    demos = hunt_demos(pid)
    for name, rc, tail in demos:
        if rc == 1:
            print('VIOLATION property=%s replay=%s clause=HuntDemo (the recorded demonstration of a repaired defect fails again: %s)'
                  % (pid, os.path.join(ROOT, 'hunts', name, 'demo.py'), tail[-300:].replace('\n', ' | ')))
            reported += 1
        elif rc != 0:
            mach.append(('hunts/%s' % name, 'demo ended with status %s: %s' % (rc, tail[-600:])))
    cov = {'states': states, 'transitions': transitions, 'traces_validated_against_impl': validated,
           'hunt_demos': {name: rc for name, rc, _ in demos},
           'evaluations': len(pool) * len(pool) + len(pool) + len(jsonbind.NON_JSON),
           'distinct_nontrivial': len(pool),
           'rule': 'value pool = structured universe over the colliding atoms (None, False, True, 0, 1, 1.0, -0.0, "", '
                   '"1", "a", 2^63, 2^100, +-inf, ...) with lists/tuples/dicts of depth <= 3, subclass instances, '
                   'plus seeded random deep values; every value (sanitize = JSON round trip, idempotent, no shared '
                   'mutable structure, TypeError for non-JSON) and EVERY ordered pair (is_equal vs. the spec\'s Eq, '
                   'symmetry, to_hashable equality iff is_equal) is judged by TLC (JsonTrace); distinct = distinct values '
                   'by type-exact rendering',
           'samples': samples or [{'note': 'none'}],
           'pool_size': len(pool), 'pairs': len(pool) ** 2, 'non_json_values': len(jsonbind.NON_JSON),
           'tlc': {'model_checking': mc_stats}, 'machinery_failures': len(mach)}
    runner.write_evidence(pid, tier, seed, cov, time.time() - t0, reported, [
        'TLC evaluates JsonVal correctly', 'terms.py (value <-> term, numeric ids) is faithful',
        'NaN excluded as the property states'])
    for m in mach[:5]:
        print('MACHINERY-FAILURE', m[0], str(m[1])[:2000])
    if reported:
        return 1
    if mach:
        return 2
    print('OK property=C18 tier=%s pool=%d pairs=%d states=%d wall=%.1fs' % (tier, len(pool), len(pool) ** 2, states,
                                                                          time.time() - t0))
    return 0


def terms_show(v):
    from . import terms
    return terms.show(v) if not isinstance(v, (set, frozenset)) else repr(v)


def terms_to(v):
    from . import terms
    return terms.to_term(v)


SPECIAL['C18'] = check_c18


def replay_c18(path):
    import json as _json
    from . import jsonbind, terms
    from file_builder.json_util import JsonUtil
    with open(path) as f:
        d = _json.load(f)
    try:
        v = terms.from_term(d['term'])
    except Exception:
        print('cannot rebuild the value from its term; value was', d['value_repr'])
        return 2
    verdicts, st, vals = jsonbind.run([v] + jsonbind.base_pool()[:200], [], JsonUtil, jobs=2)
    bad = [(k, c, i) for k, c, i in verdicts if c]
    print('value', repr(v), 'verdicts', bad[:5])
    if bad:
        print('VIOLATION property=C18 replay=%s clause=%s' % (path, bad[0][1]))
        return 1
    return 0
