"""Drive the repository's gzip sample (samples/gzip/gzip.py: walk + one build_file per input file) as
unmodified client code under the recorder: random input trees, external changes between runs, clean.
Usage: python -m harness.samples_driver <out.ndjson> <count> <seed>"""
import importlib.util
import os
import random
import shutil
import sys
import tempfile

from . import recorder


def main(out, count, seed):
    repo = os.environ.get('FBV_REPO', '/repo')
    sys.path.insert(0, repo)
    recorder.install()
    spec = importlib.util.spec_from_file_location('fbv_gzip_sample', os.path.join(repo, 'samples', 'gzip', 'gzip.py'))
    mod = importlib.util.module_from_spec(spec)
    spec.loader.exec_module(mod)
    from file_builder import FileBuilder
    import logging
    logging.disable(logging.CRITICAL)
    base = tempfile.mkdtemp(prefix='fbv_gz_', dir='/dev/shm' if os.path.isdir('/dev/shm') else None)
    # the library moves files into a temporary directory with os.rename: keep it on the same file system
    tmpd = os.path.join(base, 'tmp')
    os.mkdir(tmpd)
    tempfile.tempdir = tmpd
    try:
        for i in range(count):
            rnd = random.Random('gz:%d:%d' % (seed, i))
            recorder._current_test['id'] = 'gzip-sample-%d-%d' % (seed, i)
            root = os.path.join(base, 'r%d' % i)
            os.makedirs(os.path.join(root, 'in'))
            cache = os.path.join(root, 'cache.gz')
            names = ['a.txt', 'b.txt', os.path.join('sub', 'c.txt'), os.path.join('sub', 'deep', 'd.txt'), 'e.bin']

            def mutate():
                for _ in range(rnd.randrange(0, 4)):
                    n = os.path.join(root, 'in', rnd.choice(names))
                    r = rnd.random()
                    if r < 0.55:
                        os.makedirs(os.path.dirname(n), exist_ok=True)
                        with open(n, 'w') as f:
                            f.write(rnd.choice(['x', 'yy', 'zzz']) * rnd.randrange(1, 4))
                    elif r < 0.75 and os.path.isfile(n):
                        os.remove(n)
                    elif r < 0.85:
                        # tamper with / delete an output
                        o = os.path.join(root, 'out', os.path.relpath(n, os.path.join(root, 'in'))) + '.gz'
                        if os.path.isfile(o):
                            if rnd.random() < 0.5:
                                os.remove(o)
                            else:
                                with open(o, 'ab') as f:
                                    f.write(b'tamper')
                    elif r < 0.95:
                        d = os.path.join(root, 'in', 'sub')
                        if os.path.isdir(d) and rnd.random() < 0.5:
                            shutil.rmtree(d)
                    else:
                        with open(os.path.join(root, 'out-foreign.txt'), 'w') as f:
                            f.write('foreign')
            mutate()
            mutate()
            for b in range(rnd.randrange(2, 5)):
                try:
                    mod.gzip_dir(os.path.join(root, 'in'), os.path.join(root, 'out'), cache)
                except Exception:
                    pass
                if rnd.random() < 0.2:
                    FileBuilder.clean(cache, 'gzip_dir_sample')
                mutate()
            if rnd.random() < 0.5:
                FileBuilder.clean(cache, 'gzip_dir_sample')
            shutil.rmtree(root, ignore_errors=True)
    finally:
        shutil.rmtree(base, ignore_errors=True)
    recorder.OUT = out
    recorder.dump()


if __name__ == '__main__':
    main(sys.argv[1], int(sys.argv[2]), int(sys.argv[3]))
