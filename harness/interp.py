"""Scenario runner: replays a scenario against the real FileBuilder (imported
from /repo's current working tree) and records the API-level event trace that
spec/FBTrace.tla validates.

User functions are *interpreters* of a deterministic strategy: the next
statement is a function of (function name, own version, arguments, target
path, observation prefix) - looked up in the scenario's explicit memo table
(TLC-generated behaviours) or drawn from a seeded hash oracle (a lazily
instantiated random decision tree).  See DESIGN.md 2.3 / 3.1.
"""
import hashlib
import json
import os
import sys
import threading

from . import terms
from .sandbox import Sandbox

REPO = os.environ.get('FBV_REPO', '/repo')
if REPO not in sys.path:
    sys.path.insert(0, REPO)

import file_builder as _fbpkg                      # noqa: E402
import logging
logging.getLogger('file_builder').setLevel(logging.CRITICAL + 1)
from file_builder import FileBuilder, FileComparison   # noqa: E402

BOOL_KINDS = ('exists', 'is_file', 'is_dir')
ALL_KINDS = ('exists', 'is_file', 'is_dir', 'list_dir', 'walk', 'get_size', 'read')


class UserError(Exception):
    """Raised by interpreted user functions ("raise" statement)."""

    def __init__(self, n):
        super().__init__('user error %d' % n)
        self.n = n


class UserBaseError(BaseException):
    """An exception outside the Exception hierarchy (like KeyboardInterrupt / SystemExit): the interpreted
    functions' `catch` - an `except Exception` - does not stop it, it leaves the whole build."""

    def __init__(self, n):
        super().__init__('user base error %d' % n)
        self.n = n


class NotJson:
    """A value that is not a JSON value (for the nonJson outcome)."""


def digest(obj, n=6):
    return hashlib.sha1(json.dumps(obj, sort_keys=True, default=str).encode()).hexdigest()[:n]


class Frame:
    def __init__(self, kind, f, ver, args, kw, path):
        self.kind = kind        # root | bf | sb
        self.f = f
        self.ver = ver
        self.args = args
        self.kw = kw
        self.path = path        # spec path (list) for bf
        self.obs = []
        self.script = None      # explicit statement list (TLC-generated behaviours)
        self.key_args = (terms.show(args), terms.show(kw))   # taken before user code can mutate them
        self.wrote = None
        self.n = 0              # statements executed


class Run:
    def __init__(self, scenario, parent_dir=None, interposer=None):
        self.sc = scenario
        self.sb = Sandbox(tuple(scenario.get('cache', ['k'])), parent=parent_dir,
                          key=scenario.get('sandbox_key') or scenario.get('id'))
        self.sb.alias_pins = bool(scenario.get('alias_pins'))
        self.events = []
        self.exc_n = 0
        self.build_no = 0
        self.cur = None          # current build step
        self.interposer = interposer
        self.invocations = []    # (build_no, kind, f, path/args) log (C05/C06/C08)
        self.universe = [list(p) for p in scenario.get('universe', [])]
        self.handoff = None
        self.stale_builders = []   # (kind, builder) of activations that have ended (C17)
        self.sinks = {}          # thread ident -> per-thread event list (inside a `par` statement)
        self.gseq = 0
        self.par_info = []
        self.retained = []

    # ------------------------------------------------------------------ util
    def ev(self, **kw):
        if kw.get('ev') in ('bf_end', 'sb_end', 'build_end', 'clean'):
            kw['fault'] = bool(self.interposer and self.interposer.take_fault())
        sink = self.sinks.get(threading.get_ident())
        if sink is not None:
            self.gseq += 1
            kw['_g'] = self.gseq
            sink.append(kw)
        else:
            self.events.append(kw)
        return kw

    def new_exc(self):
        self.exc_n += 1
        return UserError(self.exc_n)

    # ------------------------------------------------------------- strategy
    def next_stmt(self, fr):
        step = self.cur
        if fr.kind == 'root':
            root = step.get('root', [])
            if fr.n < len(root):
                return root[fr.n]
            return {'s': 'return'}
        if fr.script is not None:
            if fr.n < len(fr.script):
                return fr.script[fr.n]
            return {'s': 'return'}
        key = json.dumps([fr.f, terms.show(fr.ver), fr.key_args[0], fr.key_args[1],
                          fr.path, fr.obs], sort_keys=True)
        memo = self.sc.get('memo') or {}
        if key in memo:
            return memo[key]
        prog = (self.sc.get('prog') or {}).get(fr.f)
        if prog is not None:
            # explicit straight-line / branching program: list of statements,
            # optional {"s":"if","obs": <index>, "eq": <value>, "then": [...], "else": [...]}
            st = _prog_step(prog, fr)
            if st is not None:
                return st
            return {'s': 'return'}
        orc = self.sc.get('oracle')
        if orc:
            from . import gen
            return gen.oracle_stmt(orc, key, fr)
        return {'s': 'return'}

    # ------------------------------------------------------------ execution
    def query(self, builder, fr, st):
        kind = st['kind']
        p = st['p']
        fn = _spell(self.sb.path(p), st.get('spell'))
        cmp_ = st.get('cmp', 'METADATA')
        td = bool(st.get('td', True))
        how = st.get('how', 'declare')
        e = {'ev': 'q', 'kind': kind, 'p': p, 'cmp': cmp_, 'td': td, 'how': how}
        ip = self.interposer
        if ip is not None and ip.scope_query and threading.get_ident() not in self.sinks and kind != 'walk':
            # (walk is left out: like os.walk it skips the directories it cannot list instead of raising)
            ip.in_query = True
        try:
            if kind == 'exists':
                v = builder.exists(fn)
            elif kind == 'is_file':
                v = builder.is_file(fn)
            elif kind == 'is_dir':
                v = builder.is_dir(fn)
            elif kind == 'list_dir':
                raw = builder.list_dir(fn)
                v = list(raw)
                e['raw_sorted'] = (v == sorted(v))
                v = sorted(v)
                if st.get('mut'):
                    mutate_in_place(raw)
            elif kind == 'walk':
                w = builder.walk(fn, td)
                v = [{'d': self.sb.unpath(d), 'sd': sorted(sd), 'sf': sorted(sf)} for d, sd, sf in w]
                if st.get('mut'):
                    for item in w:
                        for part in item[1:]:
                            if isinstance(part, list):
                                del part[:]
                                part.append('MUT')
                    if isinstance(w, list):
                        w.append(('MUT', [], []))
            elif kind == 'get_size':
                v = builder.get_size(fn)
                if not isinstance(v, int) or isinstance(v, bool):
                    v = -2
                elif v >= 2 ** 31:
                    v = -3
            elif kind == 'read':
                fc = FileComparison[cmp_]
                if how == 'declare':
                    r = builder.declare_read(fn, fc)
                    v = '-' if r is None else '?'
                elif how == 'binary':
                    with builder.read_binary(fn, fc) as f:
                        data = f.read()
                    v = self._cid(data)
                else:
                    with builder.read_text(fn, fc) as f:
                        data = f.read().encode()
                    v = self._cid(data)
            else:
                raise ValueError(kind)
            e['res'] = {'ok': True, 'v': v}
        except Exception as x:      # OSError subclasses, RuntimeError (fenced) ...
            e['res'] = {'ok': False, 'err': x.__class__.__name__}
        if ip is not None and ip.scope_query:
            ip.in_query = False
            e['fault'] = bool(ip.take_fault())      # an injected OSError hit a read-only call behind this query
        if st.get('nojudge'):
            # a query that races with another thread's call on the very same path: its answer depends on the
            # schedule and is not judged (C09 excludes dependent operations) - what it leaves behind is (D43)
            return e['res']
        sink = self.sinks.get(threading.get_ident())
        if sink is not None:
            self.gseq += 1
            e['_g'] = self.gseq
            sink.append(e)
        else:
            self.events.append(e)
        return e['res']

    def _cid(self, data):
        from .sandbox import PAD
        s = data.rstrip(PAD)
        try:
            c = s.decode('ascii')
            if not c or len(c) > 24:
                raise ValueError
            return c
        except ValueError:
            return '#' + hashlib.sha256(data).hexdigest()[:10]

    def obs_of_res(self, res):
        if res['ok']:
            return res['v']
        return 'E:' + res['err']

    def call_complex(self, builder, fr, st):
        """Perform a build_file / subbuild statement; returns the observation."""
        is_bf = st['s'] == 'bf'
        f = st['f']
        args = list(st.get('args', []))
        kw = dict(st.get('kw', {}))
        if st.get('alias') and args and isinstance(args[-1], (list, dict)):
            args.append(args[-1])               # the caller passes one and the same container twice
            kw = dict(kw, twin=[args[-1], args[-1]])
        if 'args_t' in st:          # arguments given as type-exact terms (subclass instances survive a replay file)
            args = [terms.from_term(t) for t in st['args_t']]
        if 'kw_t' in st:
            kw = {k: terms.from_term(t) for k, t in st['kw_t'].items()}
        ver = (self.cur.get('vers') or {}).get(f)
        state = {'invoked': False, 'exc': None}
        run = self

        def callee(b, *a, **k):
            state['invoked'] = True
            if is_bf:
                path_recv, a = a[0], a[1:]
                sub = Frame('bf', f, ver, list(a), dict(k), st['p'])
                sub.path_recv = path_recv
            else:
                sub = Frame('sb', f, ver, list(a), dict(k), None)
            if 'body' in st:
                sub.script = st['body']
            run.invocations.append((run.build_no, st['s'], f, st.get('p'), terms.show(list(a))))
            e = run.ev(ev='invoke', recv=terms.to_term(list(a)), recvkw=terms.to_term(dict(k)))
            if not (_is_tree(list(a)) and _is_tree(dict(k))):
                # what a JSON round trip yields is a tree; positions that share one container are not "the
                # round-tripped copies of the arguments" (ArgsRoundTripped)
                e['recv'] = terms.to_term(['<one container at several positions>'] + list(a))
            if is_bf:
                e['path_ok'] = (path_recv == run.sb.path(st['p']) and path_recv.__class__ is str)
            if st.get('mut_args'):
                for x in a:
                    mutate_in_place(x)
                for x in k.values():
                    mutate_in_place(x)
            try:
                return run.run_frame(b, sub)
            except BaseException as x:
                state['exc'] = x
                raise

        if is_bf:
            p = st['p']
            self.ev(ev='bf_begin', p=p, f=f, args=terms.to_term(args), kw=terms.to_term(kw),
                    cmp=st.get('cmp', 'METADATA'))
            target = self.sb.path(p)
            spelled = _spell(target, st.get('spell'))
            if st.get('cmp', 'METADATA') == 'METADATA' and int(digest([p, f, self.build_no]), 16) % 2:
                # the short form of the same call (METADATA is its documented comparison)
                call = lambda: builder.build_file(spelled, f, callee, *args, **kw)    # noqa: E731
            else:
                call = lambda: builder.build_file_with_comparison(       # noqa: E731
                    spelled, FileComparison[st.get('cmp', 'METADATA')], f, callee, *args, **kw)
        else:
            self.ev(ev='sb_begin', f=f, args=terms.to_term(args), kw=terms.to_term(kw))
            call = lambda: builder.subbuild(f, callee, *args, **kw)   # noqa: E731
        endname = 'bf_end' if is_bf else 'sb_end'
        try:
            ret = call()
        except BaseException as x:
            if not isinstance(x, (Exception, UserBaseError)):
                raise
            same = state['exc'] is not None and x is state['exc']
            e = self.ev(ev=endname, inv=state['invoked'], out='raised', err=x.__class__.__name__,
                        same=same, ret={'k': 'none'}, base=isinstance(x, UserBaseError))
            if not same and os.environ.get('FBV_TB'):
                import traceback
                e['tb'] = ''.join(traceback.format_exception(type(x), x, x.__traceback__))[-1500:]
            if is_bf:
                e['real'] = _real_state(self.sb.path(st['p']))
            if not st.get('catch', False) or (isinstance(x, UserBaseError) and not st.get('catch_base')):
                raise
            return ['E', x.__class__.__name__]
        e = self.ev(ev=endname, inv=state['invoked'], out='ok', err='', same=False,
                    ret=terms.to_term(ret), base=False)
        if not _is_tree(ret):
            e['ret'] = terms.to_term(['<one container at several positions>', ret])      # (ReturnMatches)
        if is_bf:
            e['real'] = _real_state(self.sb.path(st['p']))
        shown = terms.show(ret)
        if st.get('mut'):
            mutate_in_place(ret)
        return ['R', shown]

    def run_frame(self, builder, fr):
        """Interpret one function activation.  Returns the function's value."""
        try:
            return self._run_frame(builder, fr)
        finally:
            if self.sc.get('stale'):
                self.stale_builders.append((fr.kind, builder))

    STALE_METHODS = ('exists', 'is_file', 'is_dir', 'list_dir', 'walk', 'get_size', 'declare_read', 'read_text',
                     'read_binary', 'build_file', 'subbuild', 'build_file_with_comparison')

    def stale_call(self, kind, builder, method, target):
        """Call a method on a builder whose function has already ended (C17)."""
        fn = self.sb.path(target)
        called = {'n': 0}

        def f(b, *a, **k):
            called['n'] += 1
            if a and isinstance(a[0], str) and os.path.isabs(a[0]):
                with open(a[0], 'w') as fh:
                    fh.write('stale')
            return 'stale'
        try:
            if method in ('exists', 'is_file', 'is_dir', 'list_dir', 'walk', 'get_size', 'declare_read'):
                getattr(builder, method)(fn)
            elif method in ('read_text', 'read_binary'):
                getattr(builder, method)(fn).close()
            elif method == 'build_file':
                builder.build_file(fn, 'fstale', f, 1)
            elif method == 'build_file_with_comparison':
                builder.build_file_with_comparison(fn, FileComparison.HASH, 'fstale', f, 1)
            else:
                builder.subbuild('fstale', f, 1)
            res = {'ok': True, 'err': ''}
        except Exception as x:
            res = {'ok': False, 'err': x.__class__.__name__}
        self.ev(ev='stale', which=kind, method=method, p=target, res=res, called=called['n'])

    def _run_frame(self, builder, fr):
        while True:
            st = self.next_stmt(fr)
            fr.n += 1
            s = st['s']
            if s == 'q':
                res = self.query(builder, fr, st)
                fr.obs.append(['q', st['kind'], st['p'], st.get('cmp', ''), self.obs_of_res(res)])
            elif s == 'probe':
                acc = []
                for p in (st.get('paths') or self.universe):
                    for kind in st.get('kinds', ALL_KINDS):
                        q = {'kind': kind, 'p': p, 'cmp': st.get('cmp', 'HASH'), 'how': 'binary'}
                        if (self.sc.get('oracle') or {}).get('q_spell') and p:
                            # "probe all" spells some of the paths differently (bytes, PathLike, relative, x/../, //, ./)
                            q['spell'] = (None, None, 'bytes', 'pathlike', 'rel', 'dblsep', 'dotdot', 'dot')[
                                int(digest([p, kind, fr.n]), 16) % 8]
                            if q['spell'] == 'dblsep' and self.sc['oracle'].get('q_lead2') and int(digest([p, kind]), 16) % 2:
                                q['spell'] = 'lead2'
                        acc.append(self.obs_of_res(self.query(builder, fr, q)))
                fr.obs.append(['probe', digest(acc)])
            elif s in ('bf', 'sb'):
                try:
                    o = self.call_complex(builder, fr, st)
                except (Exception, UserBaseError) as x:
                    # not caught by this function: it ends by propagating x
                    self.ev(ev='fn_end', out='raise', v={'k': 'none'}, x=getattr(x, 'n', 0),
                            prop=True, err=x.__class__.__name__)
                    raise
                fr.obs.append([s, st.get('p'), st['f'], terms.show(st.get('args', []))] + o)
            elif s == 'write':
                if fr.kind == 'bf':
                    fn = getattr(fr, 'path_recv', None) or self.sb.path(fr.path)
                    if st['c'] == '@obs':        # the bytes written depend on what the function has observed
                        st = dict(st, c='c%d' % (int(digest(fr.obs), 16) % 3 + 1))
                    try:
                        mt = self.sb.write_file(fn, st['c'], st['sz'], st.get('mt'), link=bool(st.get('link')))
                    except OSError as x:
                        # the function's own open() fails (its target was turned into a directory by a nested
                        # call, or lies below a regular file): the function ends by raising that error
                        self.ev(ev='fn_end', out='raise', v={'k': 'none'}, x=0, prop=False, err=x.__class__.__name__)
                        raise
                    fr.wrote = (st['c'], st['sz'], mt)
                    self.ev(ev='write', c=st['c'], sz=st['sz'], mt=mt)
                fr.obs.append(['w', st['c'], st['sz']])
            elif s == 'return':
                if 'v' in st:
                    v = terms.from_term(st['v']) if isinstance(st['v'], dict) and 'k' in st['v'] else st['v']
                elif st.get('nonjson') == 'empty':
                    v = set()           # not a JSON value, and falsy
                elif st.get('nonjson'):
                    v = NotJson()
                elif st.get('container'):
                    v = ['r' + digest([fr.f, terms.show(fr.ver), fr.obs]), [1, [2]], {'a': [3], 'b': {'c': []}}]
                    if int(digest([fr.f, fr.obs, 'twin']), 16) % 3 == 0:
                        shared = [4]
                        v.append({'x': shared, 'y': shared})        # one container at two positions
                else:
                    v = 'r' + digest([fr.f, terms.show(fr.ver), fr.obs])
                self.ev(ev='fn_end', out='return', v=terms.to_term(v), x=0, prop=False, err='')
                if fr.kind != 'root' and (self.sc.get('oracle') or {}).get('mutate') and isinstance(v, (list, dict)):
                    self.retained.append(v)      # the function keeps a reference to what it returned (C11)
                return v
            elif s == 'raise':
                x = self.new_exc()
                if st.get('base'):
                    x = UserBaseError(x.n)
                self.ev(ev='fn_end', out='raise', v={'k': 'none'}, x=x.n, prop=False, err=x.__class__.__name__)
                raise x
            elif s == 'handoff':
                self.handoff = builder
                self.handoff_frame = fr
                self.ev(ev='handoff')
                from .sched import CoopLock as _CL
                if _CL.current_sched is not None and _CL.current_sched.me() is not None:
                    # preemption points of the owner are counted from the hand-off on
                    _CL.current_sched.yields[_CL.current_sched.me()] = 0
                fr.obs.append(['handoff'])
            elif s == 'stale':
                # call methods on builders of activations that have already ended
                for kind, b in list(self.stale_builders)[-st.get('last', 3):]:
                    for m in st.get('methods', self.STALE_METHODS):
                        self.stale_call(kind, b, m, st.get('p', ['sx']))
                fr.obs.append(['stale'])
            elif s == 'par':
                self.run_par(builder, fr, st)
                fr.obs.append(['par', len(st['branches'])])
            elif s == 'hook':
                # harness-internal statement: call a python callable (C11 mutations, C17 stragglers)
                st['fn'](self, builder, fr)
            else:
                raise ValueError(st)

    def build_with_straggler(self, step, the_build, root):
        """C17: the build runs in cooperative thread 0; thread 1 (the straggler) receives the root builder
        from the root function (statement `handoff`) and keeps calling its methods while the root function
        returns and the build commits.  Calls that completed normally are placed before the end of the root
        function in the merged trace (they must be part of the record), fenced calls (RuntimeError: already
        finished) become `stale` events; anything else makes the execution unjudgeable."""
        from .sched import Sched, CoopLock
        spec = step['straggler']
        sched = Sched(preempt=spec.get('preempt', ()))
        own, before, after = [], [], []
        res = {}
        me = self

        def owner():
            me.sinks[threading.get_ident()] = own
            try:
                res['out'] = the_build()
            finally:
                me.sinks.pop(threading.get_ident(), None)

        def straggler():
            tmp = []
            me.sinks[threading.get_ident()] = tmp
            try:
                spins = 0
                while me.handoff is None and spins < 10000:
                    spins += 1
                    sched.pass_turn()
                    if sched.state[0] == 'done':
                        break
                b = me.handoff
                if b is None:
                    return
                hfr = getattr(me, 'handoff_frame', None) or root
                for st in spec['ops']:
                    del tmp[:]
                    fenced = False
                    seq0 = sched.seq
                    try:
                        if st['s'] == 'q':
                            me.query(b, hfr, st)
                            r = tmp[-1]['res'] if tmp else {'ok': True}
                            fenced = (not r['ok']) and r.get('err') == 'RuntimeError'
                        else:
                            sub = dict(st)
                            sub['catch'] = True
                            me.call_complex(b, hfr, sub)
                            last = tmp[-1] if tmp else {}
                            fenced = (last.get('out') == 'raised' and last.get('err') == 'RuntimeError'
                                      and not last.get('inv'))
                            if last.get('out') == 'raised' and last.get('err') == 'RuntimeError' and last.get('inv'):
                                res['unjudged'] = True       # fenced at the very end of a call that had started
                                res['kf'] = 'KF-straggler-keeps-effects'       # ... which keeps its effects (C17j)
                    except Exception as x:      # noqa
                        res['unjudged'] = True
                    if fenced:
                        after.append({'ev': 'stale', 'which': 'root', 'method': st.get('kind', st['s']),
                                      'p': st.get('p', []), 'res': {'ok': False, 'err': 'RuntimeError'},
                                      'called': 0})
                    else:
                        blk = [dict(e) for e in tmp]
                        for e in blk:
                            # what lies at the target is looked at after the call has returned - by then the owner
                            # may have ended the build and rolled it back or committed it; the physical state at the
                            # end of a straggler's call is therefore not judged (the record and the view are)
                            if e['ev'] == 'bf_end' and 'real' in e:
                                e['real'] = 'file' if e['out'] == 'ok' else 'none'
                        if blk:
                            blk[0]['_win'] = (seq0, sched.seq)
                        before.append(blk)
            finally:
                me.sinks.pop(threading.get_ident(), None)
        old_hook = self.interposer.yield_hook if self.interposer else None
        if self.interposer:
            self.interposer.yield_hook = sched.yield_point
        CoopLock.current_sched = sched
        try:
            errors = sched.run([owner, straggler])
        finally:
            CoopLock.current_sched = None
            if self.interposer:
                self.interposer.yield_hook = old_hook
        # merge: completed straggler operations just before the end of the function that handed its builder
        # over; the call owning that builder ends at `close` (its bf_end / sb_end, or the end of the build)
        cut = close_g = None
        hpos = [i for i, e in enumerate(own) if e['ev'] == 'handoff']
        if hpos:
            depth = 0
            for i in range(hpos[0] + 1, len(own)):
                ev = own[i]['ev']
                if ev == 'invoke':
                    depth += 1
                elif ev == 'fn_end':
                    if depth == 0:
                        cut = i
                        break
                    depth -= 1
            if cut is not None:
                close_g = own[cut + 1].get('_g') if cut + 1 < len(own) else None
        # linearisation: an operation is attached to the record when the straggler takes the builder's lock
        # (_append_suboperation); the record is closed by the owner's last acquisition of that lock.  An
        # operation that returned without RuntimeError although it took the lock after the close was attached
        # to a closed record.  (The root builder appends nothing and has no such lock protocol.)
        hb_lock = id(getattr(self.handoff, '_lock', None)) if getattr(self.handoff, '_operation', None) is not None else None
        owner_last = max([q for q, th, lk in sched.lock_log if th == 0 and lk == hb_lock] or [None]) \
            if hb_lock is not None else None
        flat = []
        for blk in before:
            win = blk[0].pop('_win', None) if blk else None
            late = False
            if owner_last is not None and win is not None:
                late = any(th == 1 and lk == hb_lock and win[0] < q <= win[1] and q > owner_last
                           for q, th, lk in sched.lock_log)
            if late:
                # returned normally although the call that owns the builder had already returned (C17)
                after.append({'ev': 'stale', 'which': 'late', 'method': blk[0].get('kind', blk[0]['ev']),
                              'p': blk[0].get('p', []), 'res': {'ok': True, 'err': ''}, 'called': 0})
            else:
                flat.extend(blk)
        own = [e for e in own if e['ev'] != 'handoff']
        if cut is not None:
            cut -= 1          # the handoff marker preceded it
        merged = own if cut is None else own[:cut] + flat + [own[cut]] + after + own[cut + 1:]
        if cut is None and (before or after):
            res['unjudged'] = True
        for e in merged:
            e.pop('_g', None)
            self.events.append(e)
        self._note_locks(sched)
        self.par_info.append({'yields': list(sched.yields), 'switches': sched.switches, 'deadlock': sched.deadlock,
                              'errors': [repr(x) for x in errors if x is not None],
                              'straggler': {'before': len(flat), 'fenced': len(after)}})
        if sched.deadlock or any(x is not None for x in errors):
            self.ev(ev='par_fail', deadlock=sched.deadlock, errors=[repr(x)[:200] for x in errors if x is not None])
        if res.get('unjudged'):
            self.unjudged = True
        if res.get('kf'):
            self.unjudged_kf = res['kf']
        self.handoff = None
        self.handoff_frame = None
        return res.get('out') or {'out': 'raised', 'v': {'k': 'none'}, 'err': 'HarnessNoResult', 'same': False}

    def run_par(self, builder, fr, st):
        """Run the branches (one build_file / subbuild call each) in cooperative threads under
        the schedule st['preempt']; merge their event blocks into the sequential trace in claim
        order (executed / reused calls by the time of their claim, rejected duplicates last)."""
        from .sched import Sched, CoopLock
        import random as _random
        rnd = _random.Random(st['rseed']) if st.get('rseed') is not None else None
        sched = Sched(preempt=st.get('preempt', ()), rnd=rnd, p_switch=st.get('p_switch', 0.0))
        sched.line_files = self.sc.get('line_trace')
        blocks = [[] for _ in st['branches']]
        results = [None] * len(st['branches'])

        def mk(i, stmt):
            def fn():
                self.sinks[threading.get_ident()] = blocks[i]
                try:
                    sub = dict(stmt)
                    if sub['s'] == 'q':          # a query issued directly by the thread
                        results[i] = self.query(builder, fr, sub)
                    else:
                        sub['catch'] = True
                        results[i] = self.call_complex(builder, fr, sub)
                finally:
                    self.sinks.pop(threading.get_ident(), None)
            return fn
        old_hook = self.interposer.yield_hook if self.interposer else None
        if self.interposer:
            self.interposer.yield_hook = sched.yield_point
        CoopLock.current_sched = sched
        log0 = len(self.interposer.log) if self.interposer else 0
        # the instant at which a call claims its key (start_building_file / start_subbuild when it executes,
        # use_cached_operation when it is served from the cache) orders the calls of the threads; it is taken
        # from wrappers around those three methods of the library's Cache (a marker event, removed below)
        import file_builder.cache as _fbc
        patched = []
        claiming = {}

        def release_hook():
            # the marker is written when the method lets go of a lock, i.e. before any other thread can run
            me = threading.get_ident()
            if claiming.get(me):
                self.ev(ev='_claim')
        sched.release_hook = release_hook
        for mname in ('start_building_file', 'start_subbuild', 'use_cached_operation'):
            orig = getattr(_fbc.Cache, mname, None)
            if orig is None:
                continue

            def wrap(orig=orig):
                def w(cache_self, *a, **k):
                    me = threading.get_ident()
                    if me not in self.sinks:
                        return orig(cache_self, *a, **k)
                    claiming[me] = claiming.get(me, 0) + 1
                    try:
                        return orig(cache_self, *a, **k)
                    finally:
                        claiming[me] -= 1
                return w
            setattr(_fbc.Cache, mname, wrap())
            patched.append((mname, orig))
        try:
            errors = sched.run([mk(i, b) for i, b in enumerate(st['branches'])])
        finally:
            for mname, orig in patched:
                setattr(_fbc.Cache, mname, orig)
            CoopLock.current_sched = None
            if self.interposer:
                self.interposer.yield_hook = old_hook
        # mechanism-level observation (C09 / C14): a thread's error clean-up may take back the directories it
        # created itself, never one that a sibling call of this `par` created
        foreign_rm = []
        if self.interposer:
            made = {}
            for rec in self.interposer.log[log0:]:
                if rec['res'] != 'ok':
                    continue
                a0 = rec['args'][0] if rec['args'] else ''
                if rec['call'] in ('mkdir', 'makedirs'):
                    made[a0] = rec['thread']            # the thread that made the directory that is there now
                elif rec['call'] == 'rmdir':
                    if a0 in made and made[a0] != rec['thread']:
                        foreign_rm.append([rec['thread'], made[a0], a0[-60:]])
                    made.pop(a0, None)
        if foreign_rm:      # placed before the calls of the `par`, so that it is judged whatever they did
            self.ev(ev='foreign_rmdir', what=foreign_rm[:3])

        def key(block):
            ends = [e for e in block if e['ev'] in ('bf_end', 'sb_end')]
            last = ends[-1] if ends else None
            inv = [e for e in block if e['ev'] == 'invoke']
            claims = [e for e in block if e['ev'] == '_claim']
            rejected = bool(last is not None and not last['inv'] and last['out'] == 'raised'
                            and last.get('err') == 'RuntimeError')
            t = claims[0]['_g'] if claims else inv[0]['_g'] if inv else (
                last['_g'] if last else (block[0]['_g'] if block else 0))
            return (1 if rejected else 0, t)
        order = sorted(range(len(blocks)), key=lambda i: key(blocks[i]))
        for i in order:
            for e in blocks[i]:
                e.pop('_g', None)
                if e['ev'] != '_claim':
                    self.events.append(e)
        self._note_locks(sched)
        self.par_info.append({'yields': list(sched.yields), 'switches': sched.switches, 'deadlock': sched.deadlock,
                              'errors': [repr(x) for x in errors if x is not None], 'order': order})
        if sched.deadlock or any(x is not None for x in errors):
            # deadlock or an exception escaping the harness wrapper: recorded as an event the spec rejects
            self.ev(ev='par_fail', deadlock=sched.deadlock, errors=[repr(x)[:200] for x in errors if x is not None])

    def _note_locks(self, sched):
        """Lock-order evidence (C09): which lock roles were acquired while which were held."""
        if not hasattr(self, 'lock_edges'):
            self.lock_edges, self.lock_same = set(), set()
        self.lock_edges |= sched.lock_edges
        # nested locks of one role: keep only whether both orders of one pair of instances were seen
        pairs = sched.same_role_pairs
        for role, a, b in pairs:
            self.lock_same.add((role, (role, b, a) in pairs))

    # ----------------------------------------------------------------- steps
    def do_build(self, step):
        self.build_no += 1
        self.cur = step
        sb = self.sb
        # the application passes the *same* dictionary object to every build and edits it between builds
        if not hasattr(self, 'vers_obj'):
            self.vers_obj = {}
        self.vers_obj.clear()
        self.vers_obj.update({k: terms.from_term(v) for k, v in (step.get('vers') or {}).items()})
        vers = self.vers_obj
        disk = sb.snapshot()
        vterm = {'k': 'dict', 'kv': [[terms.to_term(k), v] for k, v in (step.get('vers') or {}).items()]}
        self.ev(ev='build', name=step.get('name', 'B'), vers=vterm, bad=bool(step.get('bad')),
                disk=disk, cser=self._cser(disk))
        root = Frame('root', '', None, [], {}, None)
        state = {'exc': None, 'invoked': False}
        run = self

        # arguments for the root function: handed through unchanged (they are not part of any cache key)
        r_args = [self.build_no, 'ra', [1, {'z': (2,)}]]
        r_kw = {'rk': {'a': [self.build_no]}, 'flag': None}

        def rootfn(b, *a, **k):
            state['invoked'] = True
            run.ev(ev='root_begin', sent=terms.show(r_args) + terms.show(r_kw), recv=terms.show(list(a)) + terms.show(dict(k)))
            if (self.sc.get('oracle') or {}).get('mutate') and isinstance(a_vers, dict):
                # C11: the caller keeps its versions object and edits it while the build runs
                for val in list(a_vers.values()):
                    mutate_in_place(val)
                for fname in ('f0a', 'f0b', 'f1a', 'f1b', 'f2a'):
                    a_vers.setdefault(fname, 'late-%d' % self.build_no)
            try:
                rv = run.run_frame(b, root)
                for kept in run.retained:       # ... and edits it later in the build; the records must not notice
                    mutate_in_place(kept)
                del run.retained[:]
                return rv
            except BaseException as x:
                state['exc'] = x
                del run.retained[:]
                raise

        old_tmp = os.environ.get('TMPDIR')
        import tempfile
        os.environ['TMPDIR'] = sb.tmp
        tempfile.tempdir = None
        bad = step.get('bad')
        a_cache, a_name, a_vers, a_func = sb.cache_file(), step.get('name', 'B'), vers, rootfn
        if bad == 'name_type':
            a_name = 123
        elif bad == 'func_type':
            a_func = 'not callable'
        elif bad == 'versions_type':
            a_vers = [('f', 1)]
        elif bad == 'versions_nonjson':
            a_vers = {'f0a': {1, 2}}
        elif bad == 'cache_type':
            a_cache = 12345
        elif bad == 'name_none':
            a_name = None
        def the_build():
            try:
                if a_vers == {} and not bad and self.build_no % 2:
                    v = FileBuilder.build(a_cache, a_name, a_func, *r_args, **r_kw)     # the short form: no versions
                else:
                    v = FileBuilder.build_versioned(a_cache, a_name, a_vers, a_func, *r_args, **r_kw)
                return {'out': 'returned', 'v': terms.to_term(v), 'err': '', 'same': False}
            except (Exception, UserBaseError) as x:
                return {'out': 'raised', 'v': {'k': 'none'}, 'err': x.__class__.__name__,
                        'same': state['exc'] is not None and x is state['exc']}
        dubious = sb.cache_is_dubious()
        try:
            if step.get('straggler'):
                out = self.build_with_straggler(step, the_build, root)
            else:
                out = the_build()
            if dubious and state['invoked']:
                self.unjudged = True      # a wrong-shaped cache was taken for a cache: what follows is not specified
        finally:
            if old_tmp is None:
                os.environ.pop('TMPDIR', None)
            else:
                os.environ['TMPDIR'] = old_tmp
            tempfile.tempdir = None
        if out['out'] == 'returned':
            sb.register_cache()
            # give the library-written cache file a logical mtime (an external touch)
            if os.path.isfile(sb.cache_file()):
                sb.set_mtime(sb.cache_file(), sb.tick())
        disk2 = sb.snapshot()
        if step.get('opaque') and out['out'] == 'raised':
            # the threads of this build issued calls that depend on each other (one target lies below another):
            # no sequential order explains them and C09 does not cover them, but the rollback contract (C02/C03)
            # holds regardless - the build is judged as a root function that did something unspecified and raised
            lo = max(i for i, e in enumerate(self.events) if e.get('ev') == 'root_begin')
            hi = max(i for i, e in enumerate(self.events) if e.get('ev') == 'fn_end')
            if lo < hi:
                del self.events[lo + 1:hi]
        elif step.get('opaque'):
            self.unjudged = True
        self.ev(ev='build_end', inv=state['invoked'], disk=disk2, cser=self._cser(disk2),
                tmp=sb.tmp_entries() == [], **out)
        if step.get('stale_after') and self.stale_builders:
            import random as _r
            rr = _r.Random(step['stale_after'])
            for kind, b in self.stale_builders[-4:]:
                for m in rr.sample(self.STALE_METHODS, 5):
                    self.stale_call(kind, b, m, rr.choice([['sx'], ['d', 'sy'], ['x']]))
            disk3 = sb.snapshot()
            self.ev(ev='idle_check', disk=disk3, cser=self._cser(disk3))
        self.stale_builders = []
        self.cur = None

    def _cser(self, disk):
        cp = list(self.sb.cache_path)
        for e in disk:
            if e['p'] == cp:
                if e['t'] == 'file' and e['c'].startswith('K') and e['c'][1:].isdigit():
                    return int(e['c'][1:])
                return -1 if e['t'] == 'file' else -2
        return 0

    def do_clean(self, step):
        sb = self.sb
        disk = sb.snapshot()
        bad = step.get('bad')
        a_cache, a_name = sb.cache_file(), step.get('name', 'B')
        if bad == 'name_type':
            a_name = 123
        elif bad == 'cache_type':
            a_cache = 12345
        if step.get('noname'):
            a_name = None
        dubious = sb.cache_is_dubious()
        try:
            FileBuilder.clean(a_cache, a_name)
            out, err = 'ok', ''
            if dubious:
                self.unjudged = True      # a wrong-shaped cache was taken for a cache: what follows is not specified
        except Exception as x:
            out, err = 'raised', x.__class__.__name__
        after = sb.snapshot()
        self.ev(ev='clean', name=step.get('name', 'B'), noname=bool(step.get('noname')), bad=bool(bad),
                disk=disk, cser=self._cser(disk), out=out, err=err, after=after,
                tmp=sb.tmp_entries() == [])

    def _fs_event(self, name, args):
        """C03 call log: every successful rename / remove / replace / rmdir of the library inside the sandbox
        root becomes an `fs` event (source path of a rename, destination of a replace)."""
        if name not in ('rename', 'remove', 'replace', 'rmdir'):
            return
        root = self.sb.root
        # a rename moves its source away; a replace does that too and overwrites its destination
        paths = [(name, args[0])] if name != 'replace' else [('rename', args[0]), ('replace', args[1])]
        for call, arg in paths:
            try:
                a = os.fsdecode(arg)
            except Exception:
                continue
            if a == root or a.startswith(root + os.sep):
                self.ev(ev='fs', call=call, p=self.sb.unpath(a))

    def run(self):
        if self.interposer is not None and self.sc.get('fslog'):
            self.interposer.fs_hook = self._fs_event
        if self.interposer is not None:
            if self.sc.get('threads'):
                from .sched import CoopLock
                self.interposer.install(lock_factory=CoopLock)
            else:
                self.interposer.install()
        try:
            return self._run()
        finally:
            if self.interposer is not None:
                self.interposer.uninstall()

    def _run(self):
        cwd0 = os.getcwd()
        try:
            for step in self.sc['steps']:
                op = step['op']
                if op == 'chdir':
                    # the process changes its working directory between calls: relative spellings mean other files
                    os.chdir(self.sb.path(step['p']))
                elif op == 'ext':
                    self.sb.ext(step)
                elif op == 'build':
                    self.do_build(step)
                elif op == 'clean':
                    self.do_clean(step)
                elif op == 'py':
                    step['fn'](self)
                else:
                    raise ValueError(op)
        finally:
            os.chdir(cwd0)
            self.sb.destroy()
        out = {'id': self.sc.get('id', ''), 'cache': list(self.sb.cache_path),
               'events': [e for e in self.events if e['ev'] != 'handoff']}
        if self.interposer is not None:
            out['eligible'] = self.interposer.eligible
            out['fault_fired'] = self.interposer.fault_fired
        if self.par_info:
            out['par'] = self.par_info
        if getattr(self, 'lock_edges', None) is not None:
            out['lock_edges'] = sorted(self.lock_edges)
            out['lock_same'] = sorted(self.lock_same)
        if getattr(self, 'unjudged', False):
            out['unjudged'] = True
            if getattr(self, 'unjudged_kf', None):
                out['unjudged_kf'] = self.unjudged_kf
        return out


def _is_tree(v, seen=None):
    seen = set() if seen is None else seen
    if isinstance(v, (list, dict)):
        if id(v) in seen:
            return False
        seen.add(id(v))
    if isinstance(v, (list, tuple)):
        return all(_is_tree(x, seen) for x in v)
    if isinstance(v, dict):
        return all(_is_tree(x, seen) for x in v.values())
    return True


def mutate_in_place(v, depth=0):
    """In-place edits of every mutable container reachable from v (C11)."""
    if isinstance(v, list):
        for x in list(v):
            if depth < 3:
                mutate_in_place(x, depth + 1)
        v.append('MUT')
    elif isinstance(v, dict):
        for x in list(v.values()):
            if depth < 3:
                mutate_in_place(x, depth + 1)
        v['MUT'] = 1
    elif isinstance(v, tuple):
        for x in v:
            if depth < 3:
                mutate_in_place(x, depth + 1)


def _real_state(fn):
    if os.path.isdir(fn):
        return 'dir'
    if os.path.isfile(fn):
        return 'file'
    if os.path.lexists(fn):
        return 'other'
    return 'none'


def _spell(target, how):
    if not how:
        return target
    if how == 'bytes':
        return os.fsencode(target)
    if how == 'pathlike':
        import pathlib
        return pathlib.PurePosixPath(target)
    if how == 'rel':
        return os.path.relpath(target, os.getcwd())
    if how == 'dblsep':
        d, b = os.path.split(target)
        return d + '//' + b
    if how == 'lead2':
        # exactly two leading slashes (plus a doubled separator inside): POSIX lets an implementation give
        # this a meaning of its own, so normpath keeps it - on Linux it is the same file
        d, b = os.path.split(target)
        return '/' + d + '//' + b
    if how == 'dotdot':
        d, b = os.path.split(target)
        return os.path.join(d, 'zz', '..', b)
    if how == 'dot':
        d, b = os.path.split(target)
        return os.path.join(d, '.', b)
    raise ValueError(how)


def _prog_step(prog, fr):
    """Explicit program: a list of statements; `if` nodes branch on an earlier
    observation.  Position is recomputed from fr.n by walking the structure."""
    # flatten lazily according to observations so far
    seq = []

    def walk(stmts):
        for st in stmts:
            if st['s'] == 'if':
                i = st['obs']
                if i < len(fr.obs) and fr.obs[i][-1] == st['eq']:
                    if walk(st.get('then', [])):
                        return True
                else:
                    if walk(st.get('else', [])):
                        return True
            else:
                seq.append(st)
                if len(seq) > fr.n:
                    return True
        return False
    walk(prog)
    if fr.n < len(seq):
        return seq[fr.n]
    return None


def run_scenario(scenario, parent_dir=None):
    ip = None
    if scenario.get('interpose') or scenario.get('fault_at') is not None or scenario.get('threads'):
        from .interpose import Interposer
        import random
        shuf = random.Random(scenario['shuffle_listdir']) if scenario.get('shuffle_listdir') is not None else None
        kw = {}
        if scenario.get('fault_calls'):
            kw['faultable'] = set(scenario['fault_calls'])
        ip = Interposer(fault_at=scenario.get('fault_at'), shuffle_listdir=shuf, **kw)
        ip.scope_query = scenario.get('fault_scope') == 'query'
    return Run(scenario, parent_dir, interposer=ip).run()
