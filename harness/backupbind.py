"""Binding of spec/FBBackup.tla (slot naming, restore_all) to file_builder.file_backups.FileBackups.

N files are moved aside through the real class (N goes beyond 128^2, where the second directory level
starts); the destination of every os.rename is recorded through a proxy for the name `os` inside the
library module; restore_all is called and every file is compared with what it held.  TLC
(FBBackupTrace) judges the records against FBBackup!Name."""
import json
import os
import re
import shutil
import subprocess
import tempfile

from . import tlc
from .sandbox import scratch_root

BV_RE = re.compile(r'<<"BVERDICT", "([^"]*)", (\d+), (\d+)>>')


class _OsProxy:
    def __init__(self, real, log):
        self._real, self._log = real, log

    def __getattr__(self, k):
        return getattr(self._real, k)

    def rename(self, src, dst, *a, **kw):
        r = self._real.rename(src, dst, *a, **kw)
        self._log.append((os.fsdecode(src), os.fsdecode(dst)))
        return r

    def replace(self, src, dst, *a, **kw):
        # (since repair D29 a file is moved aside with os.replace onto a slot created beforehand; restore_all
        # uses os.replace in the other direction, which is not a move into the backup directory)
        r = self._real.replace(src, dst, *a, **kw)
        if self.into is not None and os.fsdecode(dst).startswith(self.into):
            self._log.append((os.fsdecode(src), os.fsdecode(dst)))
        return r
    into = None


def run(n, timeout=600):
    """Returns (verdict clause or '', detail, stats)."""
    import file_builder.file_backups as fbm
    work = tempfile.mkdtemp(prefix='fbv_bk_', dir=scratch_root())
    old_tmp = tempfile.tempdir
    log = []
    real_os = fbm.os
    try:
        src = os.path.join(work, 'src')
        tmp = os.path.join(work, 'tmp')
        os.makedirs(tmp)
        tempfile.tempdir = tmp
        names = []
        for i in range(n):
            d = os.path.join(src, 'd%d' % (i % 50))
            os.makedirs(d, exist_ok=True)
            fn = os.path.join(d, 'f%d' % i)
            with open(fn, 'w') as f:
                f.write('content-%d' % i)
            names.append(fn)
        fbm.os = _OsProxy(real_os, log)
        recs = []
        with fbm.FileBackups() as backups:
            tdir = backups._temp_dir
            fbm.os.into = tdir + os.sep
            for i, fn in enumerate(names):
                try:
                    ok = backups.back_up_and_remove(fn)
                except Exception as x:      # noqa
                    return 'BackupMoves', 'moving file %d aside raised %r' % (i, x), {}
                if not ok or os.path.exists(fn):
                    return 'BackupMoves', 'file %d was not moved aside' % i, {}
            # some files are written anew and moved aside a second time (as by another thread of the build, D33):
            # the second backup holds contents of the failed build and must not come back
            again = [i for i in range(n) if i % 7 == 3]
            for i in again:
                with open(names[i], 'w') as f:
                    f.write('interim')
                try:
                    if not backups.back_up_and_remove(names[i]):
                        return 'BackupMoves', 'file %d was not moved aside the second time' % i, {}
                except Exception as x:      # noqa
                    return 'BackupMoves', 'moving file %d aside a second time raised %r' % (i, x), {}
            if len(log) != n + len(again):
                return 'H:rename-log', 'expected %d renames, saw %d' % (n + len(again), len(log)), {}
            # every second file is rewritten by "the build" before the rollback
            for i, fn in enumerate(names):
                if i % 2:
                    with open(fn, 'w') as f:
                        f.write('new')
            backups.restore_all()
            for i, (fn, (s, d)) in enumerate(zip(names, log)):
                rel = os.path.relpath(d, tdir).split(os.sep)
                m = re.fullmatch(r'file_([0-9a-f]+)', rel[-1])
                try:
                    dirs = [int(c, 16) for c in rel[:-1]]
                except ValueError:
                    dirs = [-1]
                try:
                    with open(fn) as f:
                        back = f.read() == 'content-%d' % i
                except OSError:
                    back = False
                recs.append({'k': i, 'dirs': dirs, 'file': int(m.group(1), 16) if m else -1, 'back': back})
        if os.path.exists(tdir):
            return 'TempDirRemoved', 'the backup directory survives the with block', {}
        tf = os.path.join(work, 'bk.ndjson')
        with open(tf, 'w') as f:
            for r in recs:
                f.write(json.dumps(r) + '\n')
        cmd = tlc.tlc_cmd('FBBackupTrace.cfg', 'FBBackupTrace.tla', 1, metadir=os.path.join(work, 'm'), short=True)
        p = subprocess.run(cmd, cwd=tlc.SPEC_DIR, env=dict(os.environ, TRACE_FILE=tf), stdout=subprocess.PIPE,
                           stderr=subprocess.STDOUT, text=True, timeout=timeout)
        m = BV_RE.search(p.stdout)
        if not m:
            return 'H:tlc', p.stdout[-1500:], {}
        st = tlc.parse_stats(p.stdout)
        st['records'] = int(m.group(3))
        return m.group(1), ('record %s' % m.group(2)) if m.group(1) else '', st
    finally:
        fbm.os = real_os
        tempfile.tempdir = old_tmp
        shutil.rmtree(work, ignore_errors=True)
