#!/usr/bin/env python
"""Debug helper: run N scenarios of one generator profile against $FBV_REPO and validate them with FBTrace.
usage: tools_profile.py <profile> <n> [first seed]"""
import collections
import os
import sys
sys.path.insert(0, os.path.dirname(os.path.abspath(__file__)))
sys.path.insert(0, os.environ.get('FBV_REPO', '/repo'))
from harness import gen, runner, tlc   # noqa: E402

prof, n = sys.argv[1], int(sys.argv[2])
s0 = int(sys.argv[3]) if len(sys.argv) > 3 else 0
scs = [gen.make_scenario(s0 + i, prof) for i in range(n)]
traces = [t for t in runner.run_scenarios(scs) if not t.get('unjudged') and not t.get('harness_error')]
v, st = tlc.validate(traces, open_kf=runner.open_kf_names())
c = collections.Counter((r['verdict'], r['clause']) for r in v.values())
print(dict(c), st)
for k, r in v.items():
    if r['verdict'] != 'accepted':
        print(k, r['at'], r['clause'], r['also'])
