#!/bin/sh
# usage: tools_mutant.sh <patch.diff> <check args...>   -- applies the patch to /repo, runs ./check, reverts
P="$1"; shift
cd /repo && git diff --quiet || { echo "repo dirty"; exit 3; }
git -C /repo apply "$P" || { echo "patch does not apply"; exit 3; }
cd /verif && ./check "$@"; rc=$?
git -C /repo checkout -- . 
echo "exit=$rc"
