#!/bin/sh
# Offline setup: private venv (python 3.12 of /venv) with jsonschema + hypothesis from the
# local wheelhouse; sanity checks for TLC.  Nothing is fetched.
set -e
HERE="$(cd "$(dirname "$0")" && pwd)"
cd "$HERE"
if [ ! -x .venv/bin/python ] || ! .venv/bin/python -c "import jsonschema, hypothesis" 2>/dev/null; then
  rm -rf .venv
  /venv/bin/python -m venv .venv
  PIP_NO_INDEX=1 .venv/bin/pip install -q --no-index --find-links /opt/veriftools/wheels jsonschema hypothesis \
    || echo "WARNING: could not install jsonschema/hypothesis from the wheelhouse; continuing without"
fi
java -cp /opt/veriftools/tla/tla2tools.jar tlc2.TLC -h 2>&1 | grep -q "TLC - provides" || { echo "TLC not usable"; exit 1; }
.venv/bin/python -c "import sys; sys.path.insert(0,'/repo'); import file_builder; print('setup ok', sys.version.split()[0])"
