#!/bin/sh
# usage: tools_confirm_seed.sh <dir with patch.diff demo.py meta.json> -> confirms in a scratch worktree
D="$1"
WT=/tmp/wt_confirm_$$
git -C /repo worktree add -q --detach $WT HEAD || exit 3
cd $WT
FB_PATH=$WT /venv/bin/python $D/demo.py >/dev/null 2>&1; base=$?
git apply $D/patch.diff || { echo "APPLY-FAILED"; git -C /repo worktree remove --force $WT; exit 3; }
tests=$(/venv/bin/python -m pytest -q -p no:cacheprovider --timeout=900 2>&1 | tail -1)
FB_PATH=$WT /venv/bin/python $D/demo.py >/dev/null 2>&1; mut=$?
cd /; git -C /repo worktree remove --force $WT
echo "demo_without_change_exit=$base demo_with_change_exit=$mut tests_with_change='$tests'"
