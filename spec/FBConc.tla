---------------------------- MODULE FBConc ----------------------------
(***************************************************************************)
(* The concurrent mechanism of FileBuilder, shaped like the code: several  *)
(* threads call build_file on one builder.  One action per lock region and *)
(* per file-system call, in code order:                                    *)
(*                                                                         *)
(*   chk1[files_lock] -> dirs_to_make{ is_removed[bd_lock] . isdir .       *)
(*   confirm[bd_lock] }* -> mkdir* -> started_building_file[bd_lock] ->    *)
(*   claim[files_lock] . move-aside -> run func -> finish[files_lock]      *)
(*   (error path: remove file . error_building_file[bd_lock] . finish)     *)
(*                                                                         *)
(* TLC explores ALL interleavings of these steps for 2-3 threads and       *)
(* checks: at most one execution per path (C08), the output of a           *)
(* successful call survives (C08/C09), every directory the build made is   *)
(* owned (recorded as created, or scheduled for removal and free of live   *)
(* outputs) (C09, C12), no deadlock (C09).                                 *)
(*                                                                         *)
(* The four constants Fix* select, for each of the races found by the      *)
(* conformance checks on the real code (known_findings.json D7, D16, D17,  *)
(* D18), the protocol before (FALSE) or after (TRUE) the repair, so the    *)
(* model documents both the defect (TLC finds the interleaving) and the    *)
(* repair (TLC proves the invariant over all interleavings in scope).      *)
(***************************************************************************)
EXTENDS Naturals, Sequences, FiniteSets, TLC

CONSTANTS Workers,        \* thread ids
          TargetDir,      \* [Workers -> Dirs \cup {"root"}]  directory of each worker's output
          TargetName,     \* [Workers -> file names]
          MayFail,        \* set of workers whose function may raise
          InitDirs,       \* directories that exist before the build (foreign)
          StaleDirs,      \* directories created by the previous build (exist, in maybe-removed)
          FixD7, FixD16, FixD17, FixD18

Dirs == {"N", "NM", "NO"}
Par(d) == IF d = "N" THEN "root" ELSE IF d \in {"NM", "NO"} THEN "N" ELSE "root"
RECURSIVE Chain(_)           \* d and its proper ancestors below the root, deepest first
Chain(d) == IF d = "root" THEN <<>> ELSE <<d>> \o Chain(Par(d))
ChainSet(d) == {Chain(d)[i] : i \in DOMAIN Chain(d)}
Path(w) == <<TargetDir[w], TargetName[w]>>
Paths == {Path(w) : w \in Workers}
DirOf(p) == p[1]

VARIABLES pc,          \* program counter per worker
          rdir,        \* directories in the real file system
          rfile,       \* files in the real file system
          moved,       \* files moved to the backup directory
          counts,      \* BuildDirs._build_dir_counts
          created,     \* BuildDirs._created_dirs_map (keys)
          errc,        \* BuildDirs._error_created_dirs
          maybe,       \* BuildDirs._maybe_removed_dirs
          removed,     \* BuildDirs._removed_dirs
          files,       \* Cache._files : path -> "inprogress" | "ok" | "raised"
          lk,          \* lock holders: [bd |-> w | "", fl |-> w | ""]
          loc,         \* per-worker locals: [tomake, cur, made, res, ran, isrem]
          mademe       \* dirs physically created by this build (history)

vars == <<pc, rdir, rfile, moved, counts, created, errc, maybe, removed, files, lk, loc, mademe>>

Init ==
  /\ pc = [w \in Workers |-> "chk1"]
  /\ rdir = InitDirs \cup StaleDirs
  /\ rfile = {}
  /\ moved = {}
  /\ counts = [d \in Dirs |-> 0]
  /\ created = {} /\ errc = {} /\ removed = {}
  /\ maybe = StaleDirs
  /\ files = [p \in {} |-> ""]
  /\ lk = [bd |-> "", fl |-> ""]
  /\ loc = [w \in Workers |-> [tomake |-> <<>>, cur |-> TargetDir[w], made |-> {}, res |-> "", ran |-> FALSE,
                               isrem |-> FALSE]]
  /\ mademe = {}

Goto(w, l) == pc' = [pc EXCEPT ![w] = l]
SetLoc(w, f, v) == loc' = [loc EXCEPT ![w][f] = v]

(* BuildDirs._check_maybe_removed_dir / is_removed_norm_case, evaluated atomically under the lock. *)
(* A maybe-removed directory is removed iff it holds nothing but removed / maybe-removed things.   *)
RealChildrenDirs(d) == {x \in rdir : Par(x) = d}
RealChildrenFiles(d) == {p \in rfile : DirOf(p) = d}
RECURSIVE ScanRemoved(_, _, _)
ScanRemoved(d, mb, rm) ==          \* TRUE iff the scan concludes "removed"
  /\ RealChildrenFiles(d) = {}     \* any real file found is taken for an external one
  /\ \A x \in RealChildrenDirs(d) : x \in rm \/ (x \in mb /\ ScanRemoved(x, mb, rm))
IsRemovedNow(d) ==
  IF counts[d] > 0 THEN FALSE
  ELSE IF d \in removed THEN TRUE
  ELSE IF d \notin maybe THEN FALSE
  ELSE ScanRemoved(d, maybe, removed)
(* the sets after the (lazy) scan *)
AfterScanMaybe(d) == IF counts[d] = 0 /\ d \notin removed /\ d \in maybe THEN maybe \ {d} ELSE maybe
AfterScanRemoved(d) == IF counts[d] = 0 /\ d \in maybe /\ ScanRemoved(d, maybe, removed) THEN removed \cup {d} ELSE removed

-----------------------------------------------------------------------------
(* 1. first duplicate check (Cache.assert_doesnt_have_norm_cased_file) *)
Chk1(w) ==
  /\ pc[w] = "chk1" /\ lk.fl = ""
  /\ IF Path(w) \in DOMAIN files
     THEN /\ SetLoc(w, "res", "RuntimeError") /\ Goto(w, "done")
     ELSE /\ Goto(w, "isrem") /\ UNCHANGED loc
  /\ UNCHANGED <<rdir, rfile, moved, counts, created, errc, maybe, removed, files, lk, mademe>>

(* 2. _dirs_to_make: walk up from the target's directory while the directory is (virtually) absent *)
IsRem(w) ==          \* BuildDirs.is_removed_norm_case under the lock
  /\ pc[w] = "isrem" /\ lk.bd = ""
  /\ LET d == loc[w].cur IN
     IF d = "root" THEN Goto(w, "mkdir") /\ UNCHANGED <<loc, maybe, removed>>
     ELSE /\ maybe' = AfterScanMaybe(d) /\ removed' = AfterScanRemoved(d)
          /\ IF IsRemovedNow(d)
             THEN /\ loc' = [loc EXCEPT ![w].tomake = <<d>> \o @, ![w].cur = Par(d)]
                  /\ Goto(w, "isrem")
             ELSE Goto(w, "isdir") /\ UNCHANGED loc
  /\ UNCHANGED <<rdir, rfile, moved, counts, created, errc, files, lk, mademe>>

IsDirReal(w) ==      \* os.path.isdir, no lock
  /\ pc[w] = "isdir"
  /\ LET d == loc[w].cur IN
     IF d \in rdir THEN Goto(w, "confirm") /\ UNCHANGED loc
     ELSE /\ loc' = [loc EXCEPT ![w].tomake = <<d>> \o @, ![w].cur = Par(d)] /\ Goto(w, "isrem")
  /\ UNCHANGED <<rdir, rfile, moved, counts, created, errc, maybe, removed, files, lk, mademe>>

Confirm(w) ==        \* handle_dir_exists; with FixD17 the virtual state is re-checked under the lock
  /\ pc[w] = "confirm" /\ lk.bd = ""
  /\ LET d == loc[w].cur IN
     IF FixD17 /\ IsRemovedNow(d)
     THEN /\ maybe' = AfterScanMaybe(d) /\ removed' = AfterScanRemoved(d)
          /\ loc' = [loc EXCEPT ![w].tomake = <<d>> \o @, ![w].cur = Par(d)] /\ Goto(w, "isrem")
     ELSE \* the directory is registered as existing: it and its ancestors leave the removed sets
          /\ maybe' = maybe \ ChainSet(d) /\ removed' = removed \ ChainSet(d)
          /\ Goto(w, "mkdir") /\ UNCHANGED loc
  /\ UNCHANGED <<rdir, rfile, moved, counts, created, errc, files, lk, mademe>>

(* 3. _make_dirs: os.mkdir for each missing directory, top-down; FileExistsError is ignored *)
MkDir(w) ==
  /\ pc[w] = "mkdir"
  /\ LET todo == {i \in DOMAIN loc[w].tomake : loc[w].tomake[i] \notin loc[w].made} IN
     IF todo = {} THEN Goto(w, "started") /\ UNCHANGED <<rdir, loc, mademe>>
     ELSE LET i == CHOOSE j \in todo : \A k \in todo : j <= k
              d == loc[w].tomake[i]
          IN /\ rdir' = rdir \cup {d}
             /\ mademe' = IF d \in rdir THEN mademe ELSE mademe \cup {d}
             /\ loc' = [loc EXCEPT ![w].made = @ \cup {d}]
             /\ Goto(w, "mkdir")
  /\ UNCHANGED <<rfile, moved, counts, created, errc, maybe, removed, files, lk>>

(* 4. BuildDirs.started_building_file, one critical section *)
RECURSIVE StartWalk(_, _, _, _, _)
StartWalk(ch, i, st, mine, reserved) ==
  \* st = [counts, created, errc]; walk the chain of directories upward as the code does
  IF i > Len(ch) THEN st
  ELSE LET d == ch[i]
           c == st.counts[d]
           st1 == IF reserved THEN st ELSE [st EXCEPT !.counts[d] = c + 1]
           res1 == IF reserved THEN TRUE ELSE c > 0
       IN IF FixD7 THEN
            IF d \in mine \/ (~res1 /\ d \in st1.errc) THEN
              StartWalk(ch, i + 1,
                        IF d \in st1.created THEN st1
                        ELSE [st1 EXCEPT !.created = @ \cup {d}, !.errc = @ \ {d}],
                        mine, res1)
            ELSE IF res1 THEN st1 ELSE StartWalk(ch, i + 1, st1, mine, res1)
          ELSE      \* the protocol before the repair of D7
            IF c > 0 THEN st1
            ELSE StartWalk(ch, i + 1,
                           IF d \in mine THEN [st1 EXCEPT !.created = @ \cup {d}, !.errc = @ \ {d}] ELSE st1,
                           mine, FALSE)
Started(w) ==
  /\ pc[w] = "started" /\ lk.bd = ""
  /\ LET st == StartWalk(Chain(TargetDir[w]), 1, [counts |-> counts, created |-> created, errc |-> errc],
                         {loc[w].tomake[i] : i \in DOMAIN loc[w].tomake}, FALSE)
     IN counts' = st.counts /\ created' = st.created /\ errc' = st.errc
  /\ Goto(w, IF FixD16 THEN "claim" ELSE "backup")
  /\ UNCHANGED <<rdir, rfile, moved, maybe, removed, files, lk, loc, mademe>>

(* BuildDirs.error_building_file *)
RECURSIVE ErrWalk(_, _, _)
ErrWalk(ch, i, st) ==
  IF i > Len(ch) THEN st
  ELSE LET d == ch[i] c == st.counts[d] - 1 IN
       IF c > 0 THEN [st EXCEPT !.counts[d] = c]
       ELSE ErrWalk(ch, i + 1,
                    IF d \in st.created
                    THEN [st EXCEPT !.counts[d] = 0, !.created = @ \ {d}, !.errc = @ \cup {d}, !.maybe = @ \cup {d}]
                    ELSE [st EXCEPT !.counts[d] = 0])
DoErr(w) ==
  LET st == ErrWalk(Chain(TargetDir[w]), 1, [counts |-> counts, created |-> created, errc |-> errc, maybe |-> maybe])
  IN counts' = st.counts /\ created' = st.created /\ errc' = st.errc /\ maybe' = st.maybe

(* 5. claim (Cache.start_building_file: check + insert under one lock) and move-aside *)
Claim(w) ==
  /\ pc[w] = "claim" /\ lk.fl = ""
  /\ IF Path(w) \in DOMAIN files
     THEN \* duplicate: setup fails, the reservation of the directories is released
          /\ lk.bd = "" /\ DoErr(w) /\ SetLoc(w, "res", "RuntimeError") /\ Goto(w, "done")
          /\ UNCHANGED files
     ELSE /\ files' = [p \in DOMAIN files \cup {Path(w)} |-> IF p = Path(w) THEN "inprogress" ELSE files[p]]
          /\ Goto(w, IF FixD16 THEN "backup" ELSE "run")
          /\ UNCHANGED <<counts, created, errc, maybe, loc>>
  /\ UNCHANGED <<rdir, rfile, moved, removed, lk, mademe>>

Backup(w) ==     \* FileBackups.back_up_and_remove of an existing file at the target
  /\ pc[w] = "backup"
  /\ IF Path(w) \in rfile THEN rfile' = rfile \ {Path(w)} /\ moved' = moved \cup {Path(w)}
     ELSE UNCHANGED <<rfile, moved>>
  /\ Goto(w, IF FixD16 THEN "run" ELSE "claim")
  /\ UNCHANGED <<rdir, counts, created, errc, maybe, removed, files, lk, loc, mademe>>

(* 6. the user function writes the file, then returns or raises *)
Run(w) ==
  /\ pc[w] = "run"
  /\ rfile' = rfile \cup {Path(w)}
  /\ loc' = [loc EXCEPT ![w].ran = TRUE]
  /\ \/ Goto(w, "finish")
     \/ w \in MayFail /\ Goto(w, IF FixD18 THEN "rmfile" ELSE "err")
  /\ UNCHANGED <<rdir, moved, counts, created, errc, maybe, removed, files, lk, mademe>>

Finish(w) ==
  /\ pc[w] = "finish" /\ lk.fl = ""
  /\ files' = [files EXCEPT ![Path(w)] = "ok"]
  /\ SetLoc(w, "res", "ok") /\ Goto(w, "done")
  /\ UNCHANGED <<rdir, rfile, moved, counts, created, errc, maybe, removed, lk, mademe>>

(* 7. error path: _handle_error_building_file *)
RmFile(w) ==
  /\ pc[w] = "rmfile"
  /\ rfile' = rfile \ {Path(w)}
  /\ Goto(w, IF FixD18 THEN "err" ELSE "finerr")
  /\ UNCHANGED <<rdir, moved, counts, created, errc, maybe, removed, files, lk, loc, mademe>>
Err(w) ==
  /\ pc[w] = "err" /\ lk.bd = ""
  /\ DoErr(w)
  /\ Goto(w, IF FixD18 THEN "finerr" ELSE "rmfile")
  /\ UNCHANGED <<rdir, rfile, moved, removed, files, lk, loc, mademe>>
FinErr(w) ==
  /\ pc[w] = "finerr" /\ lk.fl = ""
  /\ files' = [files EXCEPT ![Path(w)] = "raised"]
  /\ SetLoc(w, "res", "raised") /\ Goto(w, "done")
  /\ UNCHANGED <<rdir, rfile, moved, counts, created, errc, maybe, removed, lk, mademe>>

AllDone == \A w \in Workers : pc[w] = "done"
Step(w) == Chk1(w) \/ IsRem(w) \/ IsDirReal(w) \/ Confirm(w) \/ MkDir(w) \/ Started(w) \/ Claim(w)
           \/ Backup(w) \/ Run(w) \/ Finish(w) \/ RmFile(w) \/ Err(w) \/ FinErr(w)
Next == (\E w \in Workers : Step(w)) \/ (AllDone /\ UNCHANGED vars)
Spec == Init /\ [][Next]_vars

-----------------------------------------------------------------------------
(* properties *)
TypeOK == /\ \A d \in Dirs : counts[d] \in 0..Cardinality(Workers)
          /\ created \subseteq Dirs /\ errc \subseteq Dirs

(* C08: at most one execution per output path, the others are rejected *)
ClaimOnce == \A w1, w2 \in Workers : (w1 # w2 /\ Path(w1) = Path(w2)) => ~(loc[w1].ran /\ loc[w2].ran)

(* C08/C09: the output of a call that returned normally is on disk when everything is done *)
WinnerOutputIntact == AllDone => \A w \in Workers : loc[w].res = "ok" => Path(w) \in rfile

LiveBelow(d) == \E p \in DOMAIN files : files[p] = "ok" /\ d \in ChainSet(DirOf(p))
(* C09/C12: every directory this build made is owned: recorded as created, or scheduled for removal *)
(* (error-created) and not needed by a live output                                                  *)
DirsOwned == AllDone => \A d \in mademe : d \in created \/ (d \in errc /\ ~LiveBelow(d))
(* stale directories of the previous build that hold a live output must be re-recorded as created *)
StaleOwned == AllDone => \A d \in StaleDirs : LiveBelow(d) => d \in created
(* reservations are released exactly *)
CountsExact == AllDone => \A d \in Dirs :
   counts[d] = Cardinality({p \in DOMAIN files : files[p] = "ok" /\ DirOf(p) = d})
               + Cardinality({x \in Dirs : Par(x) = d /\ counts[x] > 0})
=========================================================================
