---------------------------- MODULE FBConcMC ----------------------------
(* Configurations for FBConc: thread/target scenarios and protocol variants. *)
EXTENDS FBConc

W2 == {"w1", "w2"}
W3 == {"w1", "w2", "w3"}
(* A: two outputs in one new directory *)
TD_A == [w \in W2 |-> "N"]
TN_A == [w \in W2 |-> IF w = "w1" THEN "f1" ELSE "f2"]
(* B: the same output from two threads *)
TD_B == [w \in W2 |-> "N"]
TN_B == [w \in W2 |-> "f1"]
(* C: a failing output in N/O next to a succeeding one in N/M *)
TD_C == [w \in W2 |-> IF w = "w1" THEN "NO" ELSE "NM"]
TN_C == [w \in W2 |-> "g"]
(* D: three threads: N/O/g (may fail), N/M/g, N/f (may fail) *)
TD_D == [w \in W3 |-> IF w = "w1" THEN "NO" ELSE IF w = "w2" THEN "NM" ELSE "N"]
TN_D == [w \in W3 |-> IF w = "w3" THEN "f" ELSE "g"]
(* E: three threads, two of them on the same path below a stale directory *)
TD_E == [w \in W3 |-> IF w = "w3" THEN "NM" ELSE "N"]
TN_E == [w \in W3 |-> "f"]
None == {}
StaleN == {"N"}
StaleNM == {"N", "NM"}
F1 == {"w1"}
F13 == {"w1", "w3"}
F123 == {"w1", "w2", "w3"}
=========================================================================
