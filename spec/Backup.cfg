SPECIFICATION Spec
CONSTANTS
  Threads = {t1, t2, t3}
  PerThread = 2
  MaxIdx = 40000
  AtomicSlot = TRUE
  Paths = {p1, p2, p3, p4, p5, p6}
  OncePerPath = TRUE
  FirstOnly = TRUE
  WriterIsMover = TRUE
  MaxGen = 4
  AppendFirst = FALSE
INVARIANT NoLostBackup
INVARIANT SlotsDistinct
INVARIANT RestoreGivesOldest
CHECK_DEADLOCK FALSE
