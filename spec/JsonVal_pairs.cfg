SPECIFICATION SpecPairs
INVARIANT AllJson
INVARIANT SanIdempotent
INVARIANT SanNormalForm
INVARIANT EqReflexive
INVARIANT EqSymmetric
INVARIANT CanonIffEq
INVARIANT TEqRefinesEq
INVARIANT BoolNeverNumber
INVARIANT IntEqualsFloat
INVARIANT ListEqualsTuple
INVARIANT KeyEqIffCanon
CHECK_DEADLOCK FALSE
