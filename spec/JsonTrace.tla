---------------------------- MODULE JsonTrace ----------------------------
(***************************************************************************)
(* Binds the JSON value algebra (JsonVal) to JsonUtil.sanitize / is_equal  *)
(* / to_hashable of the real code (C18, C07): the harness evaluates the    *)
(* three functions on a pool of concrete values and on all pairs, TLC      *)
(* checks every logged result against the specification's operators.       *)
(* Line 1 of the trace file: the pool (terms) with the per-value results;  *)
(* each further line: one row of the pair matrix.                          *)
(***************************************************************************)
EXTENDS JsonVal, TLC, Json, IOUtils

Recs == ndJsonDeserialize(IOEnv.TRACE_FILE)
Hdr == Recs[1]
Vals == Hdr.vals
N == Len(Vals)
NJ == Hdr.nj          \* the first NJ values are JSON values (they take part in the pair matrix)
SanV == [k \in 1..N |-> San(Vals[k])]

VARIABLES i
Init == i = 1

(* per-value clauses (header) *)
ValueVerdict(k) ==
  LET t == Vals[k] r == Hdr.res[k] IN
  IF ~IsJson(t) THEN
    IF r.err # "TypeError" THEN "NonJsonRejected" ELSE ""
  ELSE IF r.err # "" THEN "SanitizeIsRoundTrip"
  ELSE IF r.rt # SanV[k] THEN "H:json-module-differs-from-JsonVal"
  ELSE IF r.san # SanV[k] THEN "SanitizeIsRoundTrip"
  ELSE IF r.san2 # SanV[k] THEN "SanitizeIdempotent"
  ELSE IF ~r.disjoint THEN "NoSharedStructure"
  ELSE IF ~r.selfeq THEN "EqLaws"
  ELSE ""

RowVerdict(rec) ==
  LET a == rec.i IN
  IF \E b \in 1..NJ : rec.eq[b] # Eq(SanV[a], SanV[b]) THEN "EqLaws"
  ELSE IF \E b \in 1..NJ : rec.eqrev[b] # rec.eq[b] THEN "EqLaws"
  ELSE IF \E b \in 1..NJ : rec.heq[b] # rec.eq[b] THEN "HashableIffEq"
  ELSE ""

Next ==
  /\ i <= Len(Recs)
  /\ IF i = 1 THEN
       LET bad == {k \in 1..N : ValueVerdict(k) # ""} IN
       PrintT(<<"JVERDICT", "header", IF bad = {} THEN "" ELSE ValueVerdict(CHOOSE k \in bad : TRUE),
                IF bad = {} THEN 0 ELSE CHOOSE k \in bad : TRUE, N>>)
     ELSE
       PrintT(<<"JVERDICT", "row", RowVerdict(Recs[i]), Recs[i].i, N>>)
  /\ i' = i + 1

Spec == Init /\ [][Next]_i
=========================================================================
