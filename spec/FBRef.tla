---------------------------- MODULE FBRef ----------------------------
(***************************************************************************)
(* FBRef - the contract of btrekkie/file-builder as a reference semantics. *)
(*                                                                         *)
(* "FileBuilder.build behaves as if it started from scratch": the virtual  *)
(* view of a build is the real tree minus the previous build's outputs,    *)
(* the cache file and the created directories that are thereby empty, plus *)
(* the outputs whose functions have returned successfully so far.  A       *)
(* recorded subtree may be reused only if replaying it against the current *)
(* view reproduces every recorded observation (ReplayValid), and must be   *)
(* reused if so and the record did not raise (MustHit).                    *)
(*                                                                         *)
(* The module is written as a *functional core*: the state is one record   *)
(* s, every API-visible step is an event e, and                            *)
(*    Check(s, e)  = "" or the name of the first clause e violates         *)
(*    Apply(s, e)  = the successor state                                   *)
(* FBRefMC.tla generates events from this contract (Gen) and model-checks  *)
(* its invariants; FBTrace.tla feeds recorded events of the real code.     *)
(* Both use the very same Check/Apply.                                     *)
(***************************************************************************)
EXTENDS FBCore, JsonVal, TLC

CONSTANT CachePath,         \* path of the cache file (a sequence of names)
         OpenKF             \* names of the known findings that are still open
                            \* (known_findings.json); their exact shapes are named
                            \* below and reported separately, everything else is a
                            \* violation

Nil == [nil |-> TRUE]
EmptyFs == [p \in {} |-> DirNode]
NoRec == [valid |-> FALSE, name |-> "", vers |-> TDict(<<>>), tree |-> <<>>,
          outs |-> {}, cdirs |-> {}, ser |-> 0]

-----------------------------------------------------------------------------
(* Canonical answers.  Uniform shape so that records compare type-safely.  *)
AnsBase == [ok |-> TRUE, err |-> "", b |-> FALSE, names |-> {}, n |-> 0, w |-> {},
            cv |-> <<"none">>, dirsize |-> FALSE]
Err(c) == [AnsBase EXCEPT !.ok = FALSE, !.err = c]

Ans(fs, q) ==
  LET p == q.p IN
  \* (a "pin" node - a dangling symbolic link - is invisible to every query; it only keeps its directory from
  \* being empty)
  CASE q.kind = "exists" -> [AnsBase EXCEPT !.b = IsFile(fs, p) \/ IsDir(fs, p)]
    [] q.kind = "is_file" -> [AnsBase EXCEPT !.b = IsFile(fs, p)]
    [] q.kind = "is_dir" -> [AnsBase EXCEPT !.b = IsDir(fs, p)]
    [] q.kind = "list_dir" ->
         IF IsDir(fs, p) THEN [AnsBase EXCEPT !.names = SubDirNames(fs, p) \cup SubFileNames(fs, p)]
         ELSE IF IsFile(fs, p) THEN Err("NotADirectoryError") ELSE Err("FileNotFoundError")
    [] q.kind = "walk" ->
         IF IsDir(fs, p)
         THEN [AnsBase EXCEPT !.w = {<<d, SubDirNames(fs, d), SubFileNames(fs, d)>> :
                                       d \in DirsUnder(fs, p)}, !.b = q.td]
         ELSE [AnsBase EXCEPT !.b = q.td]
    [] q.kind = "get_size" ->
         IF IsFile(fs, p) THEN [AnsBase EXCEPT !.n = fs[p].sz]
         ELSE IF IsDir(fs, p) THEN [AnsBase EXCEPT !.dirsize = TRUE]
         ELSE Err("FileNotFoundError")
    [] q.kind = "read" ->
         IF IsFile(fs, p) THEN [AnsBase EXCEPT !.cv = CmpVal(fs[p], q.cmp)]
         ELSE IF IsDir(fs, p) THEN Err("IsADirectoryError") ELSE Err("FileNotFoundError")
    [] OTHER -> Err("?kind")

(* Does a logged result res = [ok, v | err] agree with the view fs?          *)
(* Listings are sets, walk is judged as a map plus the order constraint,     *)
(* get_size of a directory is not judged, a read below a regular file may    *)
(* answer NotADirectoryError (the OS's own answer on a from-scratch tree).   *)
BelowFile(fs, p) == \E a \in ProperAnc(p) : IsFile(fs, a)
(* The ancestor directories of the cache file are made before the build function starts and are      *)
(* reserved for the whole build (repair D30): in the virtual view they are directories from the      *)
(* first query on, in the build that creates them and in every later one.                            *)
CacheDirs == ProperAnc(CachePath) \ {Root}
AnsMatches(fs, q, res) ==
  LET a == Ans(fs, q) IN
  IF ~a.ok THEN
      ~res.ok /\ (res.err = a.err \/
                  (q.kind = "read" /\ BelowFile(fs, q.p) /\ res.err = "NotADirectoryError"))
  ELSE res.ok /\
    CASE q.kind \in {"exists", "is_file", "is_dir"} -> res.v = a.b
      [] q.kind = "list_dir" -> SeqToSet(res.v) = a.names /\ NoDup(res.v)
      [] q.kind = "walk" ->
           /\ {<<res.v[i].d, SeqToSet(res.v[i].sd), SeqToSet(res.v[i].sf)>> : i \in DOMAIN res.v} = a.w
           /\ Len(res.v) = Cardinality(a.w)
           /\ \A i \in DOMAIN res.v : NoDup(res.v[i].sd) /\ NoDup(res.v[i].sf)
           /\ \A i, j \in DOMAIN res.v : i < j =>
                 IF q.td THEN ~IsProperPrefix(res.v[j].d, res.v[i].d)
                         ELSE ~IsProperPrefix(res.v[i].d, res.v[j].d)
      [] q.kind = "get_size" -> a.dirsize \/ res.v = a.n
      [] q.kind = "read" -> res.v = "-" \/ res.v = fs[q.p].c
      [] OTHER -> FALSE

-----------------------------------------------------------------------------
(* The virtual view.  bfs = the from-scratch base tree (foreign things, with *)
(* targets hidden once their build_file started); live = targets in progress *)
(* or succeeded (their ancestors are directories); outs = succeeded outputs. *)
View(bfs, live, outs) ==
  Overlay(AddDirs(bfs, UNION {ProperAnc(p) : p \in live}), outs)
(* targets of the enclosing build_file functions that have already written their file: hidden from *)
(* the view but regular files on disk - also while a nested call directly below one is live       *)
WrittenTargets(s) ==
  {s.stack[i].p : i \in {j \in 2..Len(s.stack) : s.stack[j].kind = "bf" /\ s.stack[j].wrote.t # "nil"}}
SView(s) == Remove(View(s.bfs, s.live, s.outs), WrittenTargets(s))

FromScratch(disk, rec) ==
  LET fs1 == Remove(disk, {CachePath} \cup {p \in rec.outs : IsFile(disk, p)})
  IN RemoveEmptyDirs(fs1, rec.cdirs)

(* nearest existing ancestor must be a directory; the (virtually absent)    *)
(* cache file may not be turned into a directory                             *)
ParentsCreatable(fs, p) ==
  /\ \A a \in ProperAnc(p) : ~IsFile(fs, a)
  /\ \A a \in ProperAnc(p) : a # CachePath
HasLong(p) == \E i \in DOMAIN p : p[i] = "LONG"

(* written = targets of enclosing build_file functions that have already written their file: those *)
(* are hidden from the view but are regular files on disk, so no directory can be made below them.  *)
(* As built, mkdir treats "exists" as success for the target's direct parent: a call for a path    *)
(* directly below a written in-progress target passes set-up and its function is invoked (its own  *)
(* open() then fails); only deeper paths fail at set-up.                                           *)
SetupErrW(fs, claimedF, written, p) ==
  IF p \in claimedF THEN "RuntimeError"
  ELSE IF p = CachePath THEN "RuntimeError"
  ELSE IF IsDir(fs, p) THEN "IsADirectoryError"
  ELSE IF ~ParentsCreatable(fs, p) THEN "NotADirectoryError"
  ELSE IF \E w \in written : w \in ProperAnc(Parent(p)) THEN "NotADirectoryError"
  ELSE IF HasLong(Parent(p)) THEN "OSError"
  ELSE ""
SetupErr(fs, claimedF, p) == SetupErrW(fs, claimedF, {}, p)

-----------------------------------------------------------------------------
(* Records.  QRec = a recorded query, CRec = a recorded build_file/subbuild *)
QRec(q, a) == [k |-> "q", q |-> q, ans |-> a]
CRec(kind, p, f, args, kw, cmp, cres, raised, sf, ret, subs) ==
  [k |-> kind, p |-> p, f |-> f, args |-> args, kw |-> kw, cmp |-> cmp, cres |-> cres,
   raised |-> raised, sf |-> sf, ret |-> ret, subs |-> subs]
SBKeyOf(f, args, kw) == <<f, Canon(San(args)), Canon(San(kw))>>
SBKey(r) == SBKeyOf(r.f, r.args, r.kw)

RECURSIVE AllRecs(_)
AllRecs(ops) ==
  UNION {IF ops[i].k = "q" THEN {} ELSE {ops[i]} \cup AllRecs(ops[i].subs) : i \in DOMAIN ops}

RecOuts(tree) == {r.p : r \in {x \in AllRecs(tree) : x.k = "bf" /\ ~x.raised}}

VerEq(s, f) == Eq(VerOf(s.rec.vers, f), VerOf(s.vers, f))
(* A recorded output is intact if the file found at the start of the build still matches the recorded *)
(* comparison result and the build itself has not moved it out of the way since (s.gone: stale outputs  *)
(* below a path that became a file, or at a path that became a directory, in this build).               *)
Intact(s, r) == r.p \notin s.gone /\ IsFile(s.pre, r.p) /\ CmpVal(s.pre[r.p], r.cmp) = r.cres
GoneBy(s, p) == {q \in s.rec.outs : IsFile(s.pre, q) /\ (IsProperPrefix(p, q) \/ IsProperPrefix(q, p))}

(***************************************************************************)
(* Replay: simulate a from-scratch execution of a recorded operation on    *)
(* the simulation state S = [ok, fuzzy, bfs, live, outs] and check that    *)
(* every recorded observation is reproduced.                               *)
(***************************************************************************)
RECURSIVE ReplaySeq(_, _, _, _)
RECURSIVE ReplayOp(_, _, _)
ReplayOp(s, op, S) ==
  IF ~S.ok THEN S
  ELSE IF op.k = "q" THEN
    IF op.ans.dirsize THEN [S EXCEPT !.fuzzy = TRUE]
    ELSE [S EXCEPT !.ok = (Ans(View(S.bfs, S.live, S.outs), op.q) = op.ans)]
  ELSE IF op.k = "bf" THEN
    LET fs == View(S.bfs, S.live, S.outs)
        pre == /\ VerEq(s, op.f)
               /\ ~op.sf
               /\ (op.raised \/ Intact(s, op))
               /\ op.p \notin s.claimedF
               /\ SetupErr(fs, {}, op.p) = ""
    IN IF ~pre THEN [S EXCEPT !.ok = FALSE]
       ELSE LET S1 == [S EXCEPT !.live = @ \cup {op.p},
                                !.bfs = IF S.hide THEN Remove(@, {op.p}) ELSE @]
                S2 == ReplaySeq(s, op.subs, 1, S1)
            IN IF ~S2.ok THEN S2
               ELSE IF op.raised THEN [S2 EXCEPT !.live = @ \ {op.p}]
               ELSE [S2 EXCEPT !.outs = Put(@, op.p, s.pre[op.p])]
  ELSE \* subbuild
    LET pre == VerEq(s, op.f) /\ ~op.sf /\ SBKey(op) \notin s.claimedS
    IN IF ~pre THEN [S EXCEPT !.ok = FALSE] ELSE ReplaySeq(s, op.subs, 1, S)

ReplaySeq(s, ops, i, S) ==
  IF i > Len(ops) \/ ~S.ok THEN S ELSE ReplaySeq(s, ops, i + 1, ReplayOp(s, ops[i], S))

(* hide = TRUE is the contract: a foreign file at the target of a started   *)
(* build_file is invisible from then on.  hide = FALSE describes what the    *)
(* implementation's replay overlay (CreatedFiles) does today for *nested*    *)
(* targets: it does not hide them (known finding KF-hidden-foreign-target).  *)
SimOf(s) == [ok |-> TRUE, fuzzy |-> FALSE, hide |-> TRUE, bfs |-> s.bfs, live |-> s.live,
             outs |-> s.outs]
NoLk == [found |-> FALSE, valid |-> FALSE, fuzzy |-> FALSE, kfHidden |-> FALSE, r |-> Nil]

(* Lookup for a build_file call that has passed setup (target p hidden, live) *)
LookupBF(s, p, f, args, kw) ==
  LET cands == {r \in AllRecs(s.rec.tree) : r.k = "bf" /\ r.p = p /\ ~r.sf} IN
  IF ~s.rec.valid \/ cands = {} THEN NoLk
  ELSE LET r == CHOOSE x \in cands : TRUE
           S0 == [SimOf(s) EXCEPT !.live = @ \cup {p}, !.bfs = Remove(@, {p})]
           R == ReplaySeq(s, r.subs, 1, S0)
           R2 == ReplaySeq(s, r.subs, 1, [S0 EXCEPT !.hide = FALSE])
           top == /\ ~r.raised /\ r.f = f /\ VerEq(s, f)
                  /\ Eq(San(args), r.args) /\ Eq(San(kw), r.kw) /\ Intact(s, r)
       IN [found |-> TRUE, valid |-> top /\ R.ok, fuzzy |-> top /\ R.fuzzy,
           kfHidden |-> top /\ R.ok /\ ~R2.ok, r |-> r]

LookupSB(s, f, args, kw) ==
  LET key == SBKeyOf(f, args, kw)
      cands == {r \in AllRecs(s.rec.tree) : r.k = "sb" /\ ~r.sf /\ SBKey(r) = key} IN
  IF ~s.rec.valid \/ cands = {} THEN NoLk
  ELSE LET r == CHOOSE x \in cands : TRUE
           R == ReplaySeq(s, r.subs, 1, SimOf(s))
           R2 == ReplaySeq(s, r.subs, 1, [SimOf(s) EXCEPT !.hide = FALSE])
           top == ~r.raised /\ VerEq(s, f)
       IN [found |-> TRUE, valid |-> top /\ R.ok, fuzzy |-> top /\ R.fuzzy,
           kfHidden |-> top /\ R.ok /\ ~R2.ok, r |-> r]

NestedClaimed(s, r) ==
  \E x \in AllRecs(r.subs) : ~x.sf /\ IF x.k = "bf" THEN x.p \in s.claimedF ELSE SBKey(x) \in s.claimedS

(* Applying a reused record: its keys are claimed, its successful outputs   *)
(* (still in place on disk) become visible.                                  *)
RECURSIVE ApplyOps(_, _, _, _)
ApplyOp(s, op, st) ==
  IF op.k = "q" THEN st
  ELSE LET st1 ==
         IF op.sf THEN st
         ELSE IF op.k = "bf" THEN
           [st EXCEPT !.claimedF = @ \cup {op.p},
                      !.live = IF op.raised THEN @ ELSE @ \cup {op.p},
                      !.outs = IF op.raised THEN @ ELSE Put(@, op.p, s.pre[op.p]),
                      !.bfs = Remove(@, {op.p})]
         ELSE [st EXCEPT !.claimedS = @ \cup {SBKey(op)}]
       IN ApplyOps(s, op.subs, 1, st1)
ApplyOps(s, ops, i, st) ==
  IF i > Len(ops) THEN st ELSE ApplyOps(s, ops, i + 1, ApplyOp(s, ops[i], st))

-----------------------------------------------------------------------------
(* State *)
Frame(kind, p, f, args, kw, cmp) ==
  [kind |-> kind, p |-> p, f |-> f, args |-> args, kw |-> kw, cmp |-> cmp, subs |-> <<>>,
   wrote |-> NilNode, fin |-> [out |-> "", v |-> TNone, x |-> 0, err |-> ""]]
NoPend == [on |-> FALSE]
InitState == [ph |-> "idle", disk |-> [p \in {Root} |-> DirNode], rec |-> NoRec,
              pre |-> EmptyFs, v0dirs |-> {}, bfs |-> EmptyFs, live |-> {}, outs |-> EmptyFs,
              claimedF |-> {}, claimedS |-> {}, stack |-> <<>>, vers |-> TDict(<<>>),
              name |-> "", pend |-> NoPend, refuse |-> FALSE, builds |-> 0,
              targets |-> {}, reused |-> {}, kfdirs |-> {}, gone |-> {},
              st |-> [q |-> 0, inv |-> 0, invfound |-> 0, reuse |-> 0, sfail |-> 0, commit |-> 0,
                      rollback |-> 0, clean |-> 0, refuse |-> 0, nestedreuse |-> 0, failrec |-> 0]]

Top(s) == s.stack[Len(s.stack)]
PushSub(s, r) == [s EXCEPT !.stack[Len(s.stack)].subs = Append(@, r)]
Pop(s) == [s EXCEPT !.stack = SubSeq(@, 1, Len(@) - 1)]

CacheState(disk, rec, cser) ==
  IF ~Has(disk, CachePath) THEN "none"
  ELSE IF IsDir(disk, CachePath) THEN "dir"
  ELSE IF rec.valid /\ cser = rec.ser /\ cser > 0 THEN "valid" ELSE "bad"

(* C03: files outside the managed set keep bytes and timestamp; a directory  *)
(* disappears only if a build created it (and then only when empty, which   *)
(* follows from the first conjunct applied to its contents).                 *)
Managed(s) == {CachePath} \cup s.targets \cup s.claimedF \cup s.rec.outs
ForeignUntouched(s, d) ==
  /\ \A p \in Files(s.pre) \ Managed(s) : NodeAt(d, p) = s.pre[p]
  /\ \A q \in Dirs(s.pre) \ Dirs(d) : q \in s.rec.cdirs /\
        \A p \in Files(s.pre) : IsProperPrefix(q, p) => p \in Managed(s)
OutputsNotRewritten(s, d) == \A p \in s.reused : NodeAt(d, p) = s.pre[p]

RollbackStrict(pre, d, cdirs) ==
  /\ Restrict(d, Files(d)) = Restrict(pre, Files(pre))
  /\ Dirs(pre) \subseteq Dirs(d)
  /\ Dirs(d) \subseteq Dirs(pre) \cup cdirs
(* Known finding KF-rollback-ancestor-dirs: when a recorded created directory  *)
(* reappears although its parent had been deleted externally, the parent -     *)
(* created by the failed build - stays as well.                                *)
RollbackKF(pre, d, cdirs) ==
  /\ Restrict(d, Files(d)) = Restrict(pre, Files(pre))
  /\ Dirs(pre) \subseteq Dirs(d)
  /\ Dirs(d) \subseteq Dirs(pre) \cup cdirs \cup UNION {ProperAnc(c) : c \in cdirs \cap Dirs(d)}
RollbackOK(pre, d, cdirs) ==
  IF "KF-rollback-ancestor-dirs" \in OpenKF THEN RollbackKF(pre, d, cdirs)
  ELSE RollbackStrict(pre, d, cdirs)

CleanDisk(disk, rec) ==
  RemoveEmptyDirs(Remove(disk, {CachePath} \cup {p \in rec.outs : IsFile(disk, p)}), rec.cdirs)

-----------------------------------------------------------------------------
(* Check(s, e): "" if event e is allowed in state s, else the clause name.  *)
(* Events (fields): see harness/interp.py.                                   *)

InFrame(s) == s.ph = "build" /\ Len(s.stack) > 0 /\ ~s.pend.on /\ Top(s).fin.out = ""

CheckBuild(s, e) == IF s.ph # "idle" THEN "H:build-while-building" ELSE ""

CheckRootBegin(s, e) ==
  IF s.ph # "start" THEN "H:root-begin"
  ELSE IF s.refuse THEN "RefusedCallRanUserCode"
  ELSE IF e.recv # e.sent THEN "RootArgsPassed"     \* type-exact renderings of what build() was given / the function got
  ELSE ""

(* An injected OSError behind a read-only call of a query (listdir, stat, getsize, open for reading):  *)
(* the query raises it, nothing else changes - the view afterwards is the view before, the directories *)
(* of the previous build are still gone, and the record holding the failed query is never reused.      *)
QFault(e) == "fault" \in DOMAIN e /\ e.fault
CheckQ(s, e) ==
  IF ~InFrame(s) THEN "H:query-outside-frame"
  ELSE IF QFault(e) THEN (IF e.res.ok \/ e.res.err # "OSError" THEN "FaultSurfaces" ELSE "")
  ELSE IF ~AnsMatches(SView(s), e, e.res) THEN "AnswerMatches"
  ELSE ""

CheckBegin(s, e) == IF ~InFrame(s) THEN "H:begin-outside-frame" ELSE ""

CheckInvoke(s, e) ==
  LET pd == s.pend IN
  IF ~(s.ph = "build" /\ pd.on) THEN "H:invoke-without-begin"
  ELSE IF pd.serr = "RuntimeError" THEN "DuplicateRejected"
  ELSE IF pd.serr # "" THEN "SetupFailExpected"
  ELSE IF pd.lk.valid /\ ~pd.lk.fuzzy /\ ~(pd.lk.kfHidden /\ "KF-hidden-foreign-target" \in OpenKF)
    THEN "ExecOnlyIfJustified"
  ELSE IF ~(TEq(e.recv, San(pd.args)) /\ TEq(e.recvkw, San(pd.kw))) THEN "ArgsRoundTripped"
  ELSE IF pd.kind = "bf" /\ ~e.path_ok THEN "PathNormalised"
  ELSE ""

CheckWrite(s, e) == IF ~(InFrame(s) /\ Top(s).kind = "bf") THEN "H:write-outside-bf" ELSE ""
CheckFnEnd(s, e) == IF ~InFrame(s) THEN "H:fn-end-outside-frame" ELSE ""

(* end of a build_file / subbuild call *)
CheckEnd(s, e) ==
  IF s.ph # "build" THEN "H:end-outside-build"
  ELSE IF s.pend.on THEN        \* the function was not invoked
    LET pd == s.pend IN
    IF e.inv THEN "H:inv-flag"
    ELSE IF e.out = "ok" THEN
      IF pd.serr = "RuntimeError" THEN "DuplicateRejected"
      ELSE IF pd.serr # "" THEN "SetupFailExpected"
      ELSE IF ~(pd.lk.found /\ (pd.lk.valid \/ pd.lk.fuzzy)) THEN "ReuseOnlyIfValid"
      ELSE IF ~TEq(e.ret, pd.lk.r.ret) THEN "PersistedEqualsReturned"
      ELSE IF pd.kind = "bf" /\ e.real # "file" THEN "TargetFileAfterOk"
      ELSE ""
    \* an injected OS error surfaces from the call in progress (C14) - as that error, not as a secondary
    \* exception raised by the clean-up
    ELSE IF e.fault THEN IF e.err # "OSError" THEN "FaultSurfaces" ELSE ""
    ELSE
      \* C08: a duplicate may also be "implied because a cached subtree containing it is being reused": where the
      \* record found for this call contains a key that is already claimed, rejecting the call itself with
      \* RuntimeError is as good as executing it and rejecting the nested call (the code does the former when the
      \* key is claimed by another thread between its look at the record and its registration)
      IF pd.serr = "" /\ e.err = "RuntimeError" /\ pd.lk.found /\ NestedClaimed(s, pd.lk.r) THEN ""
      ELSE IF pd.serr = "" THEN "NoSpuriousException"
      ELSE IF e.err # pd.serr THEN "SetupErrClass"
      ELSE IF e.same THEN "H:same-flag"
      ELSE ""
  ELSE
    IF Len(s.stack) < 2 THEN "H:end-without-frame"
    ELSE
    LET fr == Top(s)
        okExp == fr.fin.out = "return" /\ (fr.kind = "sb" \/ fr.wrote # NilNode) /\ IsJson(fr.fin.v)
    IN
    IF fr.fin.out = "" THEN "H:end-without-fn-end"
    ELSE IF ~e.inv THEN "H:inv-flag"
    ELSE IF (e.out = "ok") # okExp THEN "OutcomeMatches"
    ELSE IF e.out = "ok" THEN
      IF ~TEq(e.ret, San(fr.fin.v)) THEN "ReturnMatches"
      ELSE IF fr.kind = "bf" /\ e.real # "file" THEN "TargetFileAfterOk"
      ELSE ""
    ELSE
      \* the target is gone; a directory may linger on disk until the end of the build only where the
      \* function itself made nested calls below its own target (their parents are removed at commit)
      \* (an exception outside the Exception hierarchy - e.base - leaves the whole build; what lies on disk
      \* while it propagates is not judged, the rollback at the end of the build is)
      IF fr.kind = "bf" /\ e.real # "none" /\ ~e.base
         /\ ~(e.real = "dir" /\ \E r \in AllRecs(fr.subs) : r.k = "bf" /\ fr.p \in ProperAnc(r.p))
      THEN "TargetAbsentAfterFail"
      ELSE IF fr.fin.out = "raise" THEN
        IF fr.fin.x # 0 /\ ~e.same THEN "ExcIdentity"
        ELSE IF e.err # fr.fin.err THEN "ExceptionClassMatches"
        ELSE ""
      \* not created: RuntimeError; where the look at the target itself fails (over-long last component) that
      \* OSError surfaces instead - after the same clean-up
      ELSE IF e.err # (IF ~IsJson(fr.fin.v) THEN "TypeError"
                       ELSE IF fr.kind = "bf" /\ fr.p # <<>> /\ fr.p[Len(fr.p)] = "LONG" THEN "OSError"
                       ELSE "RuntimeError")
        THEN "ExceptionClassMatches"
      ELSE ""

FinalView(s) == SView(s)
(* final tree, strict and with the latitude of known finding KF-dup-reuse-leaves-dirs (extra empty *)
(* directories that a rejected concurrent duplicate re-created for the nested outputs of its record) *)
CacheDirsMade(s) == CacheDirs \ DOMAIN FinalView(s)       \* made for the cache file only
FinalTreeStrict(s, d) == /\ Remove(d, {CachePath} \cup CacheDirsMade(s)) = FinalView(s)
                         /\ \A c \in CacheDirs : IsDir(d, c)
FinalTreeKF(s, d) ==
  LET dd == Remove(d, {CachePath} \cup CacheDirsMade(s))
      extra == DOMAIN dd \ DOMAIN FinalView(s)
  IN /\ \A p \in extra : dd[p].t = "dir" /\ p \in s.kfdirs
     /\ Remove(dd, extra) = FinalView(s)
FinalTreeOK(s, d) == IF "KF-dup-reuse-leaves-dirs" \in OpenKF THEN FinalTreeKF(s, d) ELSE FinalTreeStrict(s, d)
(* All clauses that the end of a build violates (a set, so that each property *)
(* can recognise its own clause even when another one fails first).           *)
BuildEndOrder == <<"NoSpuriousException", "FaultSurfaces", "CacheReplacedOnlyOnSuccess",
                   "ExceptionPropagates", "ExcIdentity",
                   "ExceptionClassMatches", "ReturnMatches", "ForeignUntouched",
                   "OutputsNotRewritten", "FinalTreeMatches", "RollbackRestores", "CacheWritten",
                   "TempDirRemoved">>
FirstOf(order, S) ==
  IF S = {} THEN "" ELSE order[CHOOSE i \in DOMAIN order : order[i] \in S /\ \A j \in 1..(i-1) : order[j] \notin S]
BuildEndFails(s, e) ==
  LET d == FsOf(e.disk)
      fr == s.stack[1]
      C(cond, name) == IF cond THEN {} ELSE {name}
  IN
  IF fr.fin.out = "return" /\ e.fault THEN
    \* the root function succeeded but writing the cache failed: roll back (C14, C16)
    IF e.out # "raised" \/ e.err # "OSError" THEN {"FaultSurfaces"}
    ELSE C(RollbackOK(s.pre, d, s.rec.cdirs), "CacheReplacedOnlyOnSuccess")
         \cup C(e.tmp, "TempDirRemoved")
  ELSE IF fr.fin.out = "return" THEN
    IF e.out # "returned" THEN {"NoSpuriousException"}
    ELSE C(TEq(e.v, fr.fin.v), "ReturnMatches")
         \cup C(ForeignUntouched(s, d), "ForeignUntouched")
         \cup C(OutputsNotRewritten(s, d), "OutputsNotRewritten")
         \cup C(FinalTreeOK(s, d), "FinalTreeMatches")
         \cup C(IsFile(d, CachePath) /\ e.cser > 0, "CacheWritten")
         \cup C(e.tmp, "TempDirRemoved")
  ELSE
    IF e.out # "raised" THEN {"ExceptionPropagates"}
    ELSE C(fr.fin.x = 0 \/ e.same, "ExcIdentity")
         \cup C(e.err = fr.fin.err, "ExceptionClassMatches")
         \cup C(\A p \in Files(s.pre) \ ({CachePath} \cup s.rec.outs) : NodeAt(d, p) = s.pre[p],
                "ForeignUntouched")
         \cup C(RollbackOK(s.pre, d, s.rec.cdirs), "RollbackRestores")
         \cup C(e.tmp, "TempDirRemoved")

CheckBuildEnd(s, e) ==
  LET d == FsOf(e.disk) IN
  IF s.ph = "start" THEN          \* the root function was never called
    IF s.refuse THEN
      IF e.out # "raised" THEN "RefusalExpected"
      ELSE IF d # s.disk THEN "RefusalNoEffect"
      ELSE IF ~e.tmp THEN "RefusalNoEffect"
      ELSE ""
    ELSE IF e.fault THEN     \* an injected fault before the root function ran: like a refusal
      IF e.out # "raised" \/ e.err # "OSError" THEN "FaultSurfaces"
      ELSE IF ~RollbackOK(s.disk, d, s.rec.cdirs) THEN "FaultLeavesConsistent"
      ELSE IF ~e.tmp THEN "TempDirRemoved"
      ELSE ""
    ELSE "NoSpuriousException"
  ELSE IF ~(s.ph = "build" /\ Len(s.stack) = 1 /\ ~s.pend.on /\ s.stack[1].fin.out # "")
    THEN "H:build-end-in-frame"
  ELSE
    FirstOf(BuildEndOrder, BuildEndFails(s, e))

CheckClean(s, e) ==
  LET d == FsOf(e.disk)
      a == FsOf(e.after)
      cs == CacheState(d, s.rec, e.cser)
      refuse == e.bad \/ cs \in {"dir", "bad"} \/ (cs = "valid" /\ ~e.noname /\ s.rec.name # e.name)
  IN
  IF s.ph # "idle" THEN "H:clean-while-building"
  ELSE IF cs = "none" /\ ~e.bad THEN
    IF e.out # "ok" THEN "NoSpuriousException"
    ELSE IF a # d THEN "CleanNoCacheNoEffect"
    ELSE ""
  ELSE IF refuse THEN
    IF e.out # "raised" THEN "RefusalExpected"
    ELSE IF a # d THEN "RefusalNoEffect"
    ELSE IF ~e.tmp THEN "RefusalNoEffect"
    ELSE ""
  ELSE
    IF e.out # "ok" THEN "NoSpuriousException"
    ELSE IF ~(\A p \in Files(d) \ ({CachePath} \cup s.rec.outs) : NodeAt(a, p) = d[p])
      THEN "ForeignUntouched"
    ELSE IF ~(Dirs(d) \ Dirs(a) \subseteq s.rec.cdirs) THEN "ForeignUntouched"
    ELSE IF a # CleanDisk(d, s.rec) THEN "CleanExact"
    ELSE ""

(* Known findings (still-open genuine defects), named by their exact shape.  *)
KnownFinding(s, e) ==
  IF e.ev = "build_end" /\ s.ph = "build" /\ e.out = "raised"
     /\ "KF-rollback-ancestor-dirs" \in OpenKF
     /\ ~RollbackStrict(s.pre, FsOf(e.disk), s.rec.cdirs)
  THEN "KF-rollback-ancestor-dirs"
  ELSE IF e.ev = "build_end" /\ s.ph = "build" /\ e.out = "returned"
     /\ "KF-dup-reuse-leaves-dirs" \in OpenKF /\ ~FinalTreeStrict(s, FsOf(e.disk))
  THEN "KF-dup-reuse-leaves-dirs"
  ELSE IF e.ev = "invoke" /\ s.pend.on /\ s.pend.lk.valid /\ ~s.pend.lk.fuzzy /\ s.pend.lk.kfHidden
     /\ "KF-hidden-foreign-target" \in OpenKF
  THEN "KF-hidden-foreign-target"
  ELSE ""

Check(s, e) ==
  CASE e.ev = "build" -> CheckBuild(s, e)
    [] e.ev = "root_begin" -> CheckRootBegin(s, e)
    [] e.ev = "q" -> CheckQ(s, e)
    [] e.ev \in {"bf_begin", "sb_begin"} -> CheckBegin(s, e)
    [] e.ev = "invoke" -> CheckInvoke(s, e)
    [] e.ev = "write" -> CheckWrite(s, e)
    [] e.ev = "fn_end" -> CheckFnEnd(s, e)
    [] e.ev \in {"bf_end", "sb_end"} -> CheckEnd(s, e)
    [] e.ev = "build_end" -> CheckBuildEnd(s, e)
    [] e.ev = "clean" -> CheckClean(s, e)
    \* C17: a method of a builder whose function has ended raises RuntimeError, calls nothing, changes nothing
    [] e.ev = "stale" -> IF e.res.ok \/ e.res.err # "RuntimeError" THEN "FencedAfterClose"
                         ELSE IF e.called # 0 THEN "FencedAfterClose" ELSE ""
    [] e.ev = "idle_check" -> IF s.ph # "idle" THEN "H:idle-check" ELSE IF FsOf(e.disk) # s.disk THEN "FencedNoEffect" ELSE ""
    \* C03 call log: the library moves / deletes only managed files and removes only directories a build created
    [] e.ev = "fs" ->
         LET pendT == IF s.ph = "build" /\ s.pend.on /\ s.pend.lk.found
                      THEN {x.p : x \in {y \in AllRecs(<<s.pend.lk.r>>) : y.k = "bf"}} ELSE {}
             okFile == e.p \in Managed(s) \cup pendT
             okDir == e.p \in s.rec.cdirs \/ (s.ph \in {"build", "start"} /\ ~IsDir(s.pre, e.p))
                      \/ (s.ph = "start" /\ ~IsDir(s.disk, e.p))
         IN IF e.call = "rmdir" THEN (IF okDir THEN "" ELSE "ForeignUntouched")
            ELSE (IF okFile \/ IsDir(IF s.ph = "idle" THEN s.disk ELSE s.pre, e.p) THEN "" ELSE "ForeignUntouched")
    [] e.ev = "par_fail" -> IF e.deadlock THEN "NoDeadlock" ELSE "NoSpuriousException"
    \* a thread removed a directory that a sibling call of the same `par` had created (mechanism-level, C09/C14)
    [] e.ev = "foreign_rmdir" -> "CleanupRemovesOwnDirsOnly"
    [] OTHER -> "H:unknown-event"

(* every clause the event violates (only build ends have several) *)
Fails(s, e) ==
  IF e.ev = "build_end" /\ s.ph = "build" /\ Len(s.stack) = 1 /\ ~s.pend.on /\ s.stack[1].fin.out # ""
  THEN BuildEndFails(s, e)
  ELSE IF Check(s, e) = "" THEN {} ELSE {Check(s, e)}

-----------------------------------------------------------------------------
(* Apply(s, e): the successor state (e has passed Check).                   *)

ApplyBuild(s, e) ==
  LET d == FsOf(e.disk)
      cs == CacheState(d, s.rec, e.cser)
      rec == IF cs = "valid" THEN s.rec ELSE NoRec
      refuse == e.bad \/ cs \in {"dir", "bad"} \/ (cs = "valid" /\ s.rec.name # e.name)
  IN [s EXCEPT !.ph = "start", !.disk = d, !.rec = IF refuse THEN s.rec ELSE rec,
               !.refuse = refuse, !.vers = San(e.vers), !.name = e.name]

ApplyRootBegin(s, e) ==
  LET v0 == FromScratch(s.disk, s.rec) IN
  [s EXCEPT !.ph = "build", !.pre = s.disk, !.bfs = AddDirs(v0, CacheDirs), !.v0dirs = Dirs(v0), !.live = {},
            !.outs = EmptyFs, !.claimedF = {}, !.claimedS = {},
            !.stack = <<Frame("root", <<>>, "", TList(<<>>), TDict(<<>>), "")>>,
            !.pend = NoPend, !.targets = {}, !.reused = {}, !.kfdirs = {}, !.gone = {}]

ApplyQ(s, e) ==
  PushSub([s EXCEPT !.st.q = @ + 1],
          QRec([kind |-> e.kind, p |-> e.p, cmp |-> e.cmp, td |-> e.td],
               IF QFault(e) THEN Err("OSError") ELSE Ans(SView(s), e)))

ApplyBegin(s, e) ==
  IF e.ev = "bf_begin" THEN
    LET serr == SetupErrW(SView(s), s.claimedF, WrittenTargets(s), e.p)
        s1 == [s EXCEPT !.live = @ \cup {e.p}, !.bfs = Remove(@, {e.p})]
        lk == IF serr = "" THEN LookupBF(s1, e.p, e.f, e.args, e.kw)
              ELSE NoLk
        \* known finding KF-dup-reuse-leaves-dirs: a rejected duplicate whose record would have been
        \* served from the cache may already have re-created the directories of its nested outputs
        lkd == IF serr = "RuntimeError" /\ e.p \in s.claimedF
               THEN LookupBF([s1 EXCEPT !.claimedF = @ \ {e.p}], e.p, e.f, e.args, e.kw) ELSE NoLk
        kd == IF lkd.found /\ lkd.valid
              THEN UNION {ProperAnc(x.p) : x \in {y \in AllRecs(lkd.r.subs) : y.k = "bf" /\ ~y.raised}}
              ELSE {}
    IN [s EXCEPT !.pend = [on |-> TRUE, kind |-> "bf", p |-> e.p, f |-> e.f, args |-> e.args,
                           kw |-> e.kw, cmp |-> e.cmp, serr |-> serr, lk |-> lk],
                 !.targets = @ \cup {e.p}, !.kfdirs = @ \cup kd]
  ELSE
    LET serr == IF SBKeyOf(e.f, e.args, e.kw) \in s.claimedS THEN "RuntimeError" ELSE ""
        lk == IF serr = "" THEN LookupSB(s, e.f, e.args, e.kw)
              ELSE NoLk
    IN [s EXCEPT !.pend = [on |-> TRUE, kind |-> "sb", p |-> <<>>, f |-> e.f, args |-> e.args,
                           kw |-> e.kw, cmp |-> "", serr |-> serr, lk |-> lk]]

ApplyInvoke(s, e) ==
  LET pd == s.pend
      fr == Frame(pd.kind, pd.p, pd.f, San(pd.args), San(pd.kw), pd.cmp)
      s1 == IF pd.kind = "bf"
            THEN [s EXCEPT !.live = @ \cup {pd.p}, !.bfs = Remove(@, {pd.p}),
                           !.claimedF = @ \cup {pd.p}, !.gone = @ \cup GoneBy(s, pd.p)]
            ELSE [s EXCEPT !.claimedS = @ \cup {SBKeyOf(pd.f, pd.args, pd.kw)}]
  IN [s1 EXCEPT !.stack = Append(@, fr), !.pend = NoPend, !.st.inv = @ + 1,
                !.st.invfound = @ + (IF pd.lk.found THEN 1 ELSE 0)]

ApplyWrite(s, e) == [s EXCEPT !.stack[Len(s.stack)].wrote = FileNode(e.c, e.sz, e.mt)]

ApplyFnEnd(s, e) ==
  [s EXCEPT !.stack[Len(s.stack)].fin = [out |-> e.out, v |-> e.v, x |-> e.x, err |-> e.err]]

ApplyEnd(s, e) ==
  IF s.pend.on THEN
    LET pd == s.pend IN
    IF e.out = "ok" THEN     \* reuse of a recorded subtree
      LET r == pd.lk.r
          s1 == IF pd.kind = "bf"
                THEN [s EXCEPT !.live = @ \cup {pd.p}, !.bfs = Remove(@, {pd.p}),
                               !.claimedF = @ \cup {pd.p}, !.gone = @ \cup GoneBy(s, pd.p),
                               !.outs = Put(@, pd.p, NodeAt(s.pre, pd.p))]
                ELSE [s EXCEPT !.claimedS = @ \cup {SBKey(r)}]
          st == ApplyOps(s, r.subs, 1, [live |-> s1.live, outs |-> s1.outs, bfs |-> s1.bfs,
                                        claimedF |-> s1.claimedF, claimedS |-> s1.claimedS])
          nr == CRec(pd.kind, pd.p, pd.f, San(pd.args), San(pd.kw), pd.cmp,
                     IF pd.kind = "bf" THEN CmpVal(NodeAt(s.pre, pd.p), pd.cmp) ELSE <<"none">>,
                     FALSE, FALSE, r.ret, r.subs)
          s2 == [s1 EXCEPT !.live = st.live, !.outs = st.outs, !.bfs = st.bfs,
                           !.claimedF = st.claimedF, !.claimedS = st.claimedS, !.pend = NoPend,
                           !.targets = @ \cup st.claimedF,
                           \* applying a recorded *successful* nested output makes room for it like executing it would;
                           \* applying a recorded failed one only moves a regular file at that very path aside (as
                           \* built: stale outputs around it stay until they are requested or the build commits)
                           !.gone = @ \cup UNION {GoneBy(s, x.p) : x \in {y \in AllRecs(r.subs) : y.k = "bf" /\ ~y.sf /\ ~y.raised}},
                           !.reused = @ \cup (DOMAIN st.outs \ DOMAIN s.outs),
                           !.st.reuse = @ + 1,
                           !.st.nestedreuse = @ + (IF \E i \in DOMAIN r.subs : r.subs[i].k # "q" THEN 1 ELSE 0),
                           !.st.failrec = @ + (IF \E x \in AllRecs(r.subs) : x.raised THEN 1 ELSE 0)]
      IN PushSub(s2, nr)
    ELSE                     \* setup failure: recorded, never reused
      PushSub([s EXCEPT !.pend = NoPend, !.st.sfail = @ + 1],
              CRec(pd.kind, pd.p, pd.f, San(pd.args), San(pd.kw), pd.cmp, <<"none">>,
                   TRUE, TRUE, TNone, <<>>))
  ELSE
    LET fr == Top(s)
        ok == e.out = "ok"
        r == CRec(fr.kind, fr.p, fr.f, fr.args, fr.kw, fr.cmp,
                  IF ok /\ fr.kind = "bf" THEN CmpVal(fr.wrote, fr.cmp) ELSE <<"none">>,
                  ~ok, FALSE, IF ok THEN San(fr.fin.v) ELSE TNone, fr.subs)
        s1 == Pop(s)
        s2 == IF fr.kind # "bf" THEN s1
              ELSE IF ok THEN [s1 EXCEPT !.outs = Put(@, fr.p, fr.wrote)]
              ELSE [s1 EXCEPT !.live = @ \ {fr.p}]
    IN PushSub(s2, r)

ApplyBuildEnd(s, e) ==
  LET d == FsOf(e.disk) IN
  IF s.ph = "start" THEN [s EXCEPT !.ph = "idle", !.disk = d, !.st.refuse = @ + 1]
  ELSE
    LET fr == s.stack[1] IN
    IF fr.fin.out = "return" /\ e.out = "returned" THEN
      LET fv == FinalView(s)
          nrec == [valid |-> TRUE, name |-> s.name, vers |-> s.vers, tree |-> fr.subs,
                   outs |-> RecOuts(fr.subs),
                   \* under KF-dup-reuse-leaves-dirs the leftover directories are recorded as created
                   cdirs |-> ((Dirs(fv) \cup CacheDirs) \ s.v0dirs) \cup
                             (IF "KF-dup-reuse-leaves-dirs" \in OpenKF
                              THEN (Dirs(d) \ Dirs(fv)) \cap s.kfdirs ELSE {}),
                   ser |-> e.cser]
      IN [s EXCEPT !.ph = "idle", !.disk = d, !.rec = nrec, !.stack = <<>>, !.builds = @ + 1,
                   !.st.commit = @ + 1]
    ELSE [s EXCEPT !.ph = "idle", !.disk = d, !.stack = <<>>, !.builds = @ + 1,
                   !.st.rollback = @ + 1]

ApplyClean(s, e) ==
  LET d == FsOf(e.disk)
      a == FsOf(e.after)
      cs == CacheState(d, s.rec, e.cser)
  IN IF e.out = "ok" THEN [s EXCEPT !.disk = a, !.rec = NoRec,
                                    !.st.clean = @ + (IF cs = "valid" THEN 1 ELSE 0)]
     ELSE [s EXCEPT !.disk = a, !.st.refuse = @ + 1]

Apply(s, e) ==
  CASE e.ev = "build" -> ApplyBuild(s, e)
    [] e.ev = "root_begin" -> ApplyRootBegin(s, e)
    [] e.ev = "q" -> ApplyQ(s, e)
    [] e.ev \in {"bf_begin", "sb_begin"} -> ApplyBegin(s, e)
    [] e.ev = "invoke" -> ApplyInvoke(s, e)
    [] e.ev = "write" -> ApplyWrite(s, e)
    [] e.ev = "fn_end" -> ApplyFnEnd(s, e)
    [] e.ev \in {"bf_end", "sb_end"} -> ApplyEnd(s, e)
    [] e.ev = "build_end" -> ApplyBuildEnd(s, e)
    [] e.ev = "clean" -> ApplyClean(s, e)
    [] OTHER -> s

-----------------------------------------------------------------------------
(* State invariants of the contract (checked by TLC in FBRefMC and at every *)
(* step of every validated trace).                                           *)
ViewWellFormed(s) == s.ph # "build" \/ WellFormed(SView(s))
AtomicOutputs(s) ==      \* a target is absent from the view while its function runs (never a file; a directory
                         \* only when the function itself made a nested call for a path below its own target)
  s.ph # "build" \/ \A i \in 2..Len(s.stack) :
     \/ s.stack[i].kind # "bf"
     \/ ~Has(SView(s), s.stack[i].p)
     \/ /\ IsDir(SView(s), s.stack[i].p)
        /\ \E q \in s.live \cup DOMAIN s.outs : s.stack[i].p \in ProperAnc(q)
ClaimsCoverLive(s) == s.ph # "build" \/ (s.live \subseteq s.claimedF /\ DOMAIN s.outs \subseteq s.live)
CacheNeverInView(s) == s.ph # "build" \/ ~Has(SView(s), CachePath)
=========================================================================
