SPECIFICATION Spec
CONSTANTS
  Threads = {t1, t2}
  PerThread = 2
  MaxIdx = 10
  AtomicSlot = FALSE
  Paths = {p1, p2, p3, p4, p5, p6}
  OncePerPath = TRUE
  FirstOnly = TRUE
  WriterIsMover = TRUE
  MaxGen = 4
  AppendFirst = FALSE
INVARIANT NoLostBackup
INVARIANT SlotsDistinct
INVARIANT RestoreGivesOldest
CHECK_DEADLOCK FALSE
