SPECIFICATION Spec
CONSTANTS
  CachePath <- CP
  OpenKF <- NoKF
  Targets <- T_simself
  QPaths <- Q_simself
  ExtPaths <- X_simself
  Kinds = {"exists", "is_file", "is_dir", "list_dir", "walk", "get_size", "read"}
  Cmps = {"METADATA"}
  Contents = {"c1", "c2"}
  Sizes = {4}
  Mts = {1}
  FNames0 = {"f", "g"}
  FNames1 = {"h"}
  VerVals <- V_tiny
  MaxStmts = 3
  MaxRootStmts = 2
  RootQueries = TRUE
  MaxBuilds = 3
  MaxExt = 1
  MaxCleans = 1
  Verbose = TRUE
  AllowKeepMeta = FALSE
INVARIANT NoViolation
INVARIANT InvView
INVARIANT InvAtomic
INVARIANT InvClaims
INVARIANT InvCache
CONSTRAINT Export
CHECK_DEADLOCK FALSE
