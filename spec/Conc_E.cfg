SPECIFICATION Spec
CONSTANTS
  Workers <- W3
  TargetDir <- TD_E
  TargetName <- TN_E
  MayFail <- F13
  InitDirs <- None
  StaleDirs <- StaleN
  FixD7 = TRUE
  FixD16 = TRUE
  FixD17 = TRUE
  FixD18 = TRUE
INVARIANT TypeOK
INVARIANT ClaimOnce
INVARIANT WinnerOutputIntact
INVARIANT DirsOwned
INVARIANT StaleOwned
INVARIANT CountsExact
CHECK_DEADLOCK TRUE
