-------------------------- MODULE FBBackupTrace --------------------------
(***************************************************************************)
(* Binds FBBackup!Name to FileBackups.back_up_and_remove of the real code: *)
(* the harness moves N files aside through the real class, records for the *)
(* k-th call (k = 0, 1, ...) the place the file went to (directory          *)
(* components and file number, parsed from the os.rename destination), and *)
(* whether restore_all brought every file back with its own bytes.  TLC    *)
(* checks every recorded place against Name(k), that no two places are     *)
(* equal, and the restore flags.  One JSON record per line:                *)
(*   [k |-> slot number, dirs |-> <<...>>, file |-> n, back |-> BOOLEAN]   *)
(***************************************************************************)
EXTENDS Integers, Sequences, FiniteSets, TLC, Json, IOUtils

RECURSIVE Comps(_), FileNo(_)
Comps(v) == IF v < 128 THEN <<>> ELSE <<v % 128>> \o Comps(v \div 128)
FileNo(v) == IF v < 128 THEN v ELSE FileNo(v \div 128)

Recs == ndJsonDeserialize(IOEnv.TRACE_FILE)
N == Len(Recs)
BadName == {i \in 1..N : Recs[i].dirs # Comps(Recs[i].k) \/ Recs[i].file # FileNo(Recs[i].k)}
BadSeq == {i \in 1..N : Recs[i].k # i - 1}
NotBack == {i \in 1..N : ~Recs[i].back}
Places == {<<Recs[i].dirs, Recs[i].file>> : i \in 1..N}

Verdict ==
  IF BadSeq # {} THEN <<"SlotSequence", CHOOSE i \in BadSeq : TRUE>>
  ELSE IF BadName # {} THEN <<"SlotName", CHOOSE i \in BadName : TRUE>>
  ELSE IF Cardinality(Places) # N THEN <<"SlotNamesDistinct", 0>>
  ELSE IF NotBack # {} THEN <<"RestoreAll", CHOOSE i \in NotBack : TRUE>>
  ELSE <<"", 0>>

VARIABLE done
Init == done = FALSE
Next == ~done /\ PrintT(<<"BVERDICT", Verdict[1], Verdict[2], N>>) /\ done' = TRUE
Spec == Init /\ [][Next]_done
=========================================================================
