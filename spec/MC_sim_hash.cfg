SPECIFICATION Spec
CONSTANTS
  CachePath <- CP
  OpenKF <- NoKF
  Targets <- T_sim
  QPaths <- Q_sim
  ExtPaths <- X_sim
  Kinds = {"exists", "is_file", "is_dir", "list_dir", "walk", "get_size", "read"}
  Cmps = {"HASH"}
  Contents = {"c1", "c2"}
  Sizes = {4, 6}
  Mts = {1, 2}
  FNames0 = {"f", "g"}
  FNames1 = {"h"}
  VerVals <- V_tiny
  MaxStmts = 3
  MaxRootStmts = 3
  RootQueries = TRUE
  MaxBuilds = 3
  MaxExt = 2
  MaxCleans = 1
  Verbose = TRUE
  AllowKeepMeta = TRUE
INVARIANT NoViolation
INVARIANT InvView
INVARIANT InvAtomic
INVARIANT InvClaims
INVARIANT InvCache
CONSTRAINT Export
CHECK_DEADLOCK FALSE
