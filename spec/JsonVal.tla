---------------------------- MODULE JsonVal ----------------------------
(***************************************************************************)
(* The JSON value algebra used for cache decisions (C07, C18, C06, C16).   *)
(*                                                                         *)
(* Values are *terms* that keep the concrete Python type of every node     *)
(* (see harness/terms.py).  Numbers never appear as TLA+ integers: a       *)
(* number carries a numeric id n (equal ids <=> numerically equal) and,    *)
(* for floats, its repr r.                                                  *)
(*                                                                         *)
(*   [k |-> "none"]  [k |-> "bool", b]  [k |-> "int", n]                   *)
(*   [k |-> "float", n, r]  [k |-> "str", s]                               *)
(*   [k |-> "list", xs]  [k |-> "tuple", xs]                               *)
(*   [k |-> "dict", kv]     kv = sequence of <<keyterm, valterm>>          *)
(*   [k |-> "other", r]     not a JSON value                               *)
(***************************************************************************)
EXTENDS Naturals, Sequences, FiniteSets

TNone == [k |-> "none"]
TBool(b) == [k |-> "bool", b |-> b]
TInt(n) == [k |-> "int", n |-> n]
TFloat(n, r) == [k |-> "float", n |-> n, r |-> r]
TStr(s) == [k |-> "str", s |-> s]
TList(xs) == [k |-> "list", xs |-> xs]
TTuple(xs) == [k |-> "tuple", xs |-> xs]
TDict(kv) == [k |-> "dict", kv |-> kv]
TOther(r) == [k |-> "other", r |-> r]

IsNum(t) == t.k \in {"int", "float"}
IsSeqT(t) == t.k \in {"list", "tuple"}
(* instances of subclasses of the JSON types (IntEnum, OrderedDict, str subclasses ...) *)
IsSubT(t) == t.k \in {"intS", "floatS", "strS", "listS", "tupleS", "dictS"}
Base(t) == CASE t.k = "intS" -> TInt(t.n) [] t.k = "floatS" -> TFloat(t.n, t.r) [] t.k = "strS" -> TStr(t.s)
             [] t.k = "listS" -> TList(t.xs) [] t.k = "tupleS" -> TTuple(t.xs) [] t.k = "dictS" -> TDict(t.kv)
             [] OTHER -> t

(* json.dumps' stringification of a dictionary key *)
RECURSIVE KeyStr(_)
KeyStr(t) ==
  CASE IsSubT(t) -> KeyStr(Base(t))
    [] t.k = "str" -> t.s
    [] t.k = "bool" -> IF t.b THEN "true" ELSE "false"
    [] t.k = "int" -> t.n
    [] t.k = "float" -> (IF t.n = "inf" THEN "Infinity"
                         ELSE IF t.n = "-inf" THEN "-Infinity"
                         ELSE IF t.n = "nan" THEN "NaN" ELSE t.r)
    [] t.k = "none" -> "null"
    [] OTHER -> "?"

IsKeyT(t) == t.k \in {"str", "bool", "int", "float", "none", "strS", "intS", "floatS"}

RECURSIVE IsJson(_)
IsJson(t) ==
  CASE IsSubT(t) -> IsJson(Base(t))
    [] t.k \in {"none", "bool", "int", "str"} -> TRUE
    [] t.k = "float" -> t.n # "nan"
    [] IsSeqT(t) -> \A i \in DOMAIN t.xs : IsJson(t.xs[i])
    [] t.k = "dict" -> \A i \in DOMAIN t.kv : IsKeyT(t.kv[i][1]) /\ IsJson(t.kv[i][2])
    [] OTHER -> FALSE

(* Python dict semantics for building a dict from pairs: the first insertion *)
(* fixes the position, the last one fixes the value.                          *)
RECURSIVE DictPut(_, _, _)
DictPut(kv, key, val) ==
  IF \E i \in DOMAIN kv : kv[i][1] = key
  THEN [i \in DOMAIN kv |-> IF kv[i][1] = key THEN <<key, val>> ELSE kv[i]]
  ELSE Append(kv, <<key, val>>)

RECURSIVE San(_)
RECURSIVE SanKV(_, _, _)
SanKV(kv, i, acc) ==
  IF i > Len(kv) THEN acc
  ELSE SanKV(kv, i + 1, DictPut(acc, TStr(KeyStr(kv[i][1])), San(kv[i][2])))

(* sanitize = json.loads(json.dumps(v)) *)
San(t) ==
  CASE IsSubT(t) -> San(Base(t))
    [] IsSeqT(t) -> TList([i \in DOMAIN t.xs |-> San(t.xs[i])])
    [] t.k = "dict" -> TDict(SanKV(t.kv, 1, <<>>))
    [] OTHER -> t

KeysOf(t) == {t.kv[i][1] : i \in DOMAIN t.kv}
Lookup(t, key) == (CHOOSE i \in DOMAIN t.kv : t.kv[i][1] = key)

(* JSON equality (FileBuilder's notion): lists = tuples, key order irrelevant, *)
(* list order relevant, 1 = 1.0, booleans never equal numbers.                 *)
RECURSIVE Eq(_, _)
Eq(t, u) ==
  CASE IsSeqT(t) -> IsSeqT(u) /\ Len(t.xs) = Len(u.xs)
                    /\ \A i \in DOMAIN t.xs : Eq(t.xs[i], u.xs[i])
    [] t.k = "dict" -> u.k = "dict" /\ Len(t.kv) = Len(u.kv) /\ KeysOf(t) = KeysOf(u)
                       /\ \A i \in DOMAIN t.kv :
                            Eq(t.kv[i][2], u.kv[Lookup(u, t.kv[i][1])][2])
    [] t.k = "bool" -> u.k = "bool" /\ t.b = u.b
    [] IsNum(t) -> IsNum(u) /\ t.n = u.n /\ t.n # "nan"
    [] t.k = "str" -> u.k = "str" /\ t.s = u.s
    [] t.k = "none" -> u.k = "none"
    [] OTHER -> FALSE

(* Type-exact equality of values: concrete types must agree (1 # 1.0,       *)
(* True # 1), only the order of dictionary keys is irrelevant (it is not     *)
(* observable through == in Python and is not preserved by the cache file,   *)
(* which is written with sorted keys).                                        *)
RECURSIVE TEq(_, _)
TEq(t, u) ==
  IF t.k # u.k THEN FALSE
  ELSE CASE IsSeqT(t) -> Len(t.xs) = Len(u.xs) /\ \A i \in DOMAIN t.xs : TEq(t.xs[i], u.xs[i])
         [] t.k = "dict" -> Len(t.kv) = Len(u.kv) /\ KeysOf(t) = KeysOf(u)
                            /\ \A i \in DOMAIN t.kv : TEq(t.kv[i][2], u.kv[Lookup(u, t.kv[i][1])][2])
         [] OTHER -> t = u

(* An abstract canonical (hashable) form: Eq(t,u) <=> Canon(t) = Canon(u) on *)
(* sanitised values.                                                           *)
RECURSIVE Canon(_)
Canon(t) ==
  CASE IsSeqT(t) -> <<"L", [i \in DOMAIN t.xs |-> Canon(t.xs[i])]>>
    [] t.k = "dict" -> <<"D", {<<t.kv[i][1].s, Canon(t.kv[i][2])>> : i \in DOMAIN t.kv}>>
    [] t.k = "bool" -> <<"B", IF t.b THEN "t" ELSE "f">>
    [] IsNum(t) -> <<"N", t.n>>
    [] t.k = "str" -> <<"S", t.s>>
    [] t.k = "none" -> <<"Z", "">>
    [] OTHER -> <<"?", "">>

(* version of function f in a version map (a sanitised dict term); absent = None *)
VerOf(vers, f) ==
  IF \E i \in DOMAIN vers.kv : vers.kv[i][1] = TStr(f)
  THEN vers.kv[Lookup(vers, TStr(f))][2] ELSE TNone

(* identity of a subbuild call / of the function part of a build_file call *)
KeyEq(f1, a1, k1, f2, a2, k2) == f1 = f2 /\ Eq(San(a1), San(a2)) /\ Eq(San(k1), San(k2))
=========================================================================
