---------------------------- MODULE FBFence ----------------------------
(***************************************************************************)
(* Fencing of finished builders (C17).  One owner thread runs the function *)
(* that was given a builder and then closes the builder; stragglers call   *)
(* methods of that builder concurrently.                                   *)
(*                                                                         *)
(* Nested builders (build_file / subbuild): is_finished is flipped under   *)
(* the builder lock, and every operation is appended to the record under   *)
(* the same lock after re-checking the flag.  Root builder: the flag is    *)
(* set right after the root function returns (CloseAtReturn = TRUE, the    *)
(* code) - before created directories are collected, the cache is written  *)
(* and the build is committed; operations are not appended anywhere, they  *)
(* only re-check the flag at their end.                                    *)
(*                                                                         *)
(* Checked over all interleavings:                                         *)
(*   NothingAfterClose   no operation is attached to a closed record       *)
(*   ReturnedIsRecorded  an operation that returned normally is in the     *)
(*                       record (nested) / took effect before the cache    *)
(*                       was written (root)                                *)
(*   FencedAfterClose    an operation that starts after the close raises   *)
(*                       RuntimeError without any effect                   *)
(***************************************************************************)
EXTENDS Naturals, Sequences, FiniteSets, TLC

CONSTANTS Stragglers, Kind,         \* Kind \in {"nested", "root"}
          CloseAtReturn,            \* root: set the flag when the function returns (TRUE) or only when build() returns
          LockedFlip                \* nested: flip is_finished under the builder lock (TRUE = the code)

VARIABLES opc,        \* owner: "run" | "flip" (holding the lock) | "closed" | "written" | "returned"
          finished,   \* the is_finished flag
          lock,       \* holder of the builder lock: "" | "owner" | straggler
          subs,       \* operations appended to the record (nested)
          spc,        \* per straggler: "idle" | "checked" | "effect" | "append" | "ok" | "err"
          eff,        \* stragglers whose operation had an effect (executed)
          effAfterWrite, \* root: effects that happened after the cache file was written
          startedAfterClose \* stragglers that began their call after the flag was set
vars == <<opc, finished, lock, subs, spc, eff, effAfterWrite, startedAfterClose>>

Init == /\ opc = "run" /\ finished = FALSE /\ lock = "" /\ subs = {} /\ eff = {} /\ effAfterWrite = {}
        /\ spc = [s \in Stragglers |-> "idle"] /\ startedAfterClose = {}

(* owner *)
OwnerReturn ==          \* the function returns
  /\ opc = "run"
  /\ IF Kind = "nested"
     THEN IF LockedFlip THEN lock = "" /\ lock' = "owner" /\ opc' = "flip" /\ UNCHANGED finished
          ELSE opc' = "closed" /\ finished' = TRUE /\ UNCHANGED lock
     ELSE /\ opc' = "closed" /\ finished' = CloseAtReturn /\ UNCHANGED lock
  /\ UNCHANGED <<subs, spc, eff, effAfterWrite, startedAfterClose>>
OwnerFlip ==
  /\ opc = "flip" /\ finished' = TRUE /\ lock' = "" /\ opc' = "closed"
  /\ UNCHANGED <<subs, spc, eff, effAfterWrite, startedAfterClose>>
OwnerWrite ==           \* the record is persisted (cache write / parent appends the closed record)
  /\ opc = "closed" /\ opc' = "written"
  /\ UNCHANGED <<finished, lock, subs, spc, eff, effAfterWrite, startedAfterClose>>
OwnerBuildReturns ==    \* build_versioned's finally sets the flag in any case
  /\ opc = "written" /\ opc' = "returned" /\ finished' = TRUE
  /\ UNCHANGED <<lock, subs, spc, eff, effAfterWrite, startedAfterClose>>

(* straggler s calls a method of the builder *)
SCheck(s) ==            \* _assert_not_finished at the beginning (no lock)
  /\ spc[s] = "idle"
  /\ startedAfterClose' = IF finished THEN startedAfterClose \cup {s} ELSE startedAfterClose
  /\ spc' = [spc EXCEPT ![s] = IF finished THEN "err" ELSE "checked"]
  /\ UNCHANGED <<opc, finished, lock, subs, eff, effAfterWrite>>
SEffect(s) ==           \* the operation itself (query answered, file built, ...)
  /\ spc[s] = "checked"
  /\ eff' = eff \cup {s}
  /\ effAfterWrite' = IF opc \in {"written", "returned"} THEN effAfterWrite \cup {s} ELSE effAfterWrite
  /\ spc' = [spc EXCEPT ![s] = "effect"]
  /\ UNCHANGED <<opc, finished, lock, subs, startedAfterClose>>
SAppend(s) ==           \* _append_suboperation
  /\ spc[s] = "effect"
  /\ IF Kind = "nested"
     THEN /\ lock = ""          \* with self._lock: assert not finished; append
          /\ IF finished THEN spc' = [spc EXCEPT ![s] = "err"] /\ UNCHANGED subs
             ELSE spc' = [spc EXCEPT ![s] = "ok"] /\ subs' = subs \cup {s}
     ELSE /\ spc' = [spc EXCEPT ![s] = IF finished THEN "err" ELSE "ok"] /\ UNCHANGED subs
  /\ UNCHANGED <<opc, finished, lock, eff, effAfterWrite, startedAfterClose>>

Done == opc = "returned" /\ \A s \in Stragglers : spc[s] \in {"ok", "err"}
Next == OwnerReturn \/ OwnerFlip \/ OwnerWrite \/ OwnerBuildReturns
        \/ (\E s \in Stragglers : SCheck(s) \/ SEffect(s) \/ SAppend(s)) \/ (Done /\ UNCHANGED vars)
Spec == Init /\ [][Next]_vars

(* nothing is attached to a record after it was closed *)
NothingAfterClose == [][\A s \in Stragglers : (s \in subs' /\ s \notin subs) => ~finished]_vars
(* nested: returned normally => recorded *)
ReturnedIsRecorded == \A s \in Stragglers : (Kind = "nested" /\ spc[s] = "ok") => s \in subs
(* root: an operation that returned normally took effect before the cache was written *)
RootReturnedBeforeWrite == \A s \in Stragglers : (Kind = "root" /\ spc[s] = "ok") => s \notin effAfterWrite
(* a call that starts after the close raises and has no effect *)
FencedAfterClose == \A s \in startedAfterClose : spc[s] = "err" /\ s \notin eff
(* the record is closed (flag set) before it is persisted *)
ClosedBeforeWrite == opc \in {"written", "returned"} => (finished \/ ~CloseAtReturn)
=========================================================================
