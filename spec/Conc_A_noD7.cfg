SPECIFICATION Spec
CONSTANTS
  Workers <- W2
  TargetDir <- TD_A
  TargetName <- TN_A
  MayFail <- None
  InitDirs <- None
  StaleDirs <- None
  FixD7 = FALSE
  FixD16 = TRUE
  FixD17 = TRUE
  FixD18 = TRUE
INVARIANT TypeOK
INVARIANT ClaimOnce
INVARIANT WinnerOutputIntact
INVARIANT DirsOwned
INVARIANT StaleOwned
INVARIANT CountsExact
CHECK_DEADLOCK TRUE
