SPECIFICATION Spec
CONSTANTS
  Workers <- W2
  TargetDir <- TD_C
  TargetName <- TN_C
  MayFail <- F1
  InitDirs <- None
  StaleDirs <- None
  FixD7 = TRUE
  FixD16 = TRUE
  FixD17 = TRUE
  FixD18 = TRUE
INVARIANT TypeOK
INVARIANT ClaimOnce
INVARIANT WinnerOutputIntact
INVARIANT DirsOwned
INVARIANT StaleOwned
INVARIANT CountsExact
CHECK_DEADLOCK TRUE
