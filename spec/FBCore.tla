---------------------------- MODULE FBCore ----------------------------
(***************************************************************************)
(* File-system algebra shared by all file-builder specifications.          *)
(*                                                                         *)
(* A path is a sequence of names below the sandbox root (Root = <<>>,      *)
(* which always exists, is a directory and is foreign).  A file system     *)
(* value is a function whose DOMAIN is the set of paths that exist:        *)
(*   fs[p] = [t |-> "dir"]  or  [t |-> "file", c, sz, mt]  or  [t |-> "pin"]  *)
(* c = abstract content id, sz = size, mt = logical modification time.     *)
(***************************************************************************)
EXTENDS Naturals, Sequences, FiniteSets

Root == <<>>
DirNode == [t |-> "dir"]
FileNode(c, sz, mt) == [t |-> "file", c |-> c, sz |-> sz, mt |-> mt]
NilNode == [t |-> "nil"]

Parent(p) == SubSeq(p, 1, Len(p) - 1)
Last(p) == p[Len(p)]
IsPrefix(a, b) == Len(a) <= Len(b) /\ SubSeq(b, 1, Len(a)) = a
IsProperPrefix(a, b) == Len(a) < Len(b) /\ SubSeq(b, 1, Len(a)) = a
ProperAnc(p) == {SubSeq(p, 1, i) : i \in 0..(Len(p) - 1)}     \* includes Root

Has(fs, p) == p \in DOMAIN fs
IsFile(fs, p) == p \in DOMAIN fs /\ fs[p].t = "file"
IsDir(fs, p) == p \in DOMAIN fs /\ fs[p].t = "dir"
NodeAt(fs, p) == IF p \in DOMAIN fs THEN fs[p] ELSE NilNode
Files(fs) == {p \in DOMAIN fs : fs[p].t = "file"}
Dirs(fs) == {p \in DOMAIN fs : fs[p].t = "dir"}

Children(fs, d) == {p \in DOMAIN fs : Len(p) = Len(d) + 1 /\ Parent(p) = d}
ChildNames(fs, d) == {Last(p) : p \in Children(fs, d)}
SubDirNames(fs, d) == {Last(p) : p \in {q \in Children(fs, d) : fs[q].t = "dir"}}
SubFileNames(fs, d) == {Last(p) : p \in {q \in Children(fs, d) : fs[q].t = "file"}}
DirsUnder(fs, d) == {p \in DOMAIN fs : fs[p].t = "dir" /\ IsPrefix(d, p)}   \* incl. d

Restrict(fs, S) == [p \in S |-> fs[p]]
Remove(fs, S) == [p \in DOMAIN fs \ S |-> fs[p]]
RemoveTree(fs, d) == [p \in {q \in DOMAIN fs : ~IsPrefix(d, q)} |-> fs[p]]
Put(fs, p, n) == [q \in DOMAIN fs \cup {p} |-> IF q = p THEN n ELSE fs[q]]
(* make every path in D a directory unless something is already there *)
AddDirs(fs, D) == [q \in DOMAIN fs \cup D |-> IF q \in DOMAIN fs THEN fs[q] ELSE DirNode]
Overlay(fs, o) == [q \in DOMAIN fs \cup DOMAIN o |-> IF q \in DOMAIN o THEN o[q] ELSE fs[q]]

WellFormed(fs) == IsDir(fs, Root) /\ \A p \in DOMAIN fs \ {Root} : IsDir(fs, Parent(p))

(* rmdir, deepest first, of the members of D that are (or become) empty:     *)
(* d goes iff every strict descendant of d is a directory in D.              *)
RemovableDirs(fs, D) ==
  {d \in D : IsDir(fs, d) /\ d # Root /\
     \A q \in DOMAIN fs : IsProperPrefix(d, q) => (fs[q].t = "dir" /\ q \in D)}
RemoveEmptyDirs(fs, D) == Remove(fs, RemovableDirs(fs, D))

SeqToSet(s) == {s[i] : i \in DOMAIN s}
NoDup(s) == Cardinality(SeqToSet(s)) = Len(s)

(* snapshot entries (from the harness) -> file system value *)
PinNode == [t |-> "pin"]       \* a dangling symbolic link: not a file, not a directory, but an entry of its directory
NodeOfEntry(e) == IF e.t = "dir" THEN DirNode ELSE IF e.t = "pin" THEN PinNode ELSE FileNode(e.c, e.sz, e.mt)
FsOf(es) == [p \in {es[i].p : i \in DOMAIN es} |->
               NodeOfEntry(es[CHOOSE i \in DOMAIN es : es[i].p = p])]

(* comparison value of a file node under a FileComparison mode; the bytes of *)
(* a file are determined by (c, sz): content id padded to the size          *)
CmpVal(n, cmp) == IF n.t # "file" THEN <<"none">>
                  ELSE IF cmp = "HASH" THEN <<"H", n.c, n.sz>> ELSE <<"M", n.sz, n.mt>>
=========================================================================
