SPECIFICATION Spec
CONSTANTS
  Threads = {t1}
  PerThread = 2
  MaxIdx = 10
  AtomicSlot = TRUE
  Paths = {p1, p2}
  OncePerPath = FALSE
  FirstOnly = FALSE
  WriterIsMover = TRUE
  MaxGen = 4
  AppendFirst = FALSE
INVARIANT NoLostBackup
INVARIANT SlotsDistinct
INVARIANT RestoreGivesOldest
CHECK_DEADLOCK FALSE
