----------------------------- MODULE FBHash -----------------------------
(***************************************************************************)
(* The per-build hash cache of SimpleOperationExecutor._file_hash under    *)
(* concurrency (C09, C08, C13): one thread builds an output compared by    *)
(* HASH (claim, move the old file aside, write, hash, finish) while other  *)
(* threads hash the same file - a duplicate build_file call compares the   *)
(* old output before it is rejected; readers come after the build.         *)
(*                                                                         *)
(* _file_hash is not atomic: read the flags, look the entry up, read the   *)
(* file, store the entry.  As found (FixD26 = FALSE) an entry is tagged     *)
(* only with "has the build_file call for this file started": a hash taken  *)
(* of the old or half-written contents after the claim is stored as if it   *)
(* belonged to the rebuilt file, and the builder itself then records it     *)
(* (defect D26: RecordedFresh fails).  As repaired (FixD26 = TRUE) nothing  *)
(* is trusted or stored while the file is in progress, and a hash is stored *)
(* only if the state did not change while the file was read.                *)
(***************************************************************************)
EXTENDS Naturals, FiniteSets, TLC

CONSTANTS Hashers,     \* threads that only hash the file (duplicates before, readers after)
          MaxHashes,   \* _file_hash calls per hasher
          FixD26

Builder == "builder"
Procs == Hashers \cup {Builder}

VARIABLES content,    \* "old" | "absent" | "mid" | "new": what a read of the file yields
          cstate,     \* "none" | "building" | "built": the file's entry in the new cache
          entry,      \* hash cache entry: [h, built] or Nil
          bpc,        \* builder: "start" | "claimed" | "moved" | "mid" | "written" | "hashing" | "done"
          recorded,   \* hash the builder recorded for its output
          hpc,        \* per process: "idle" | "flags" | "looked" | "read"
          fbuilt, fbuilding,   \* flags read at the top of _file_hash
          hval,       \* hash computed / found
          fresh,      \* this _file_hash call started after the build of the file had finished
          results,    \* set of <<proc, fresh, hash>> returned by completed _file_hash calls
          count
vars == <<content, cstate, entry, bpc, recorded, hpc, fbuilt, fbuilding, hval, fresh, results, count>>
Nil == [h |-> "nil", built |-> FALSE]

Init == /\ content = "old" /\ cstate = "none" /\ entry = Nil /\ bpc = "start" /\ recorded = "none"
        /\ hpc = [p \in Procs |-> "idle"] /\ fbuilt = [p \in Procs |-> FALSE]
        /\ fbuilding = [p \in Procs |-> FALSE] /\ hval = [p \in Procs |-> "nil"]
        /\ fresh = [p \in Procs |-> FALSE] /\ results = {} /\ count = [p \in Procs |-> 0]

(* ---- the builder ---- *)
Claim == bpc = "start" /\ cstate' = "building" /\ bpc' = "claimed"
         /\ UNCHANGED <<content, entry, recorded, hpc, fbuilt, fbuilding, hval, fresh, results, count>>
MoveAside == bpc = "claimed" /\ content' = "absent" /\ bpc' = "moved"
         /\ UNCHANGED <<cstate, entry, recorded, hpc, fbuilt, fbuilding, hval, fresh, results, count>>
Write1 == bpc = "moved" /\ content' = "mid" /\ bpc' = "mid"
         /\ UNCHANGED <<cstate, entry, recorded, hpc, fbuilt, fbuilding, hval, fresh, results, count>>
Write2 == bpc = "mid" /\ content' = "new" /\ bpc' = "written"
         /\ UNCHANGED <<cstate, entry, recorded, hpc, fbuilt, fbuilding, hval, fresh, results, count>>
Finish == bpc = "hashing" /\ hpc[Builder] = "idle" /\ count[Builder] = 1
          /\ cstate' = "built" /\ bpc' = "done"
          /\ UNCHANGED <<content, entry, recorded, hpc, fbuilt, fbuilding, hval, fresh, results, count>>

(* ---- _file_hash, for the builder (once, after writing) and the hashers ---- *)
MayHash(p) == IF p = Builder THEN bpc = "written" /\ count[p] = 0 ELSE count[p] < MaxHashes
Flags(p) ==
  /\ hpc[p] = "idle" /\ MayHash(p)
  /\ fbuilt' = [fbuilt EXCEPT ![p] = cstate # "none"]
  /\ fbuilding' = [fbuilding EXCEPT ![p] = cstate = "building"]
  /\ fresh' = [fresh EXCEPT ![p] = cstate = "built"]
  /\ hpc' = [hpc EXCEPT ![p] = "flags"]
  /\ bpc' = IF p = Builder THEN "hashing" ELSE bpc
  /\ UNCHANGED <<content, cstate, entry, recorded, hval, results, count>>
Return(p, h) ==
  /\ results' = results \cup {<<p, fresh[p], h>>}
  /\ recorded' = IF p = Builder THEN h ELSE recorded
  /\ count' = [count EXCEPT ![p] = @ + 1]
  /\ hpc' = [hpc EXCEPT ![p] = "idle"]
Lookup(p) ==
  /\ hpc[p] = "flags"
  /\ IF (FixD26 => ~fbuilding[p]) /\ entry # Nil /\ entry.built = fbuilt[p] /\ content # "absent"
     THEN Return(p, entry.h) /\ UNCHANGED <<hval>>
     ELSE hpc' = [hpc EXCEPT ![p] = "looked"] /\ UNCHANGED <<results, recorded, count, hval>>
  /\ UNCHANGED <<content, cstate, entry, bpc, fbuilt, fbuilding, fresh>>
ReadFile(p) ==
  /\ hpc[p] = "looked"
  /\ IF content = "absent"
     THEN Return(p, "error") /\ UNCHANGED hval        \* FileNotFoundError: nothing stored
     ELSE hval' = [hval EXCEPT ![p] = content] /\ hpc' = [hpc EXCEPT ![p] = "read"]
          /\ UNCHANGED <<results, recorded, count>>
  /\ UNCHANGED <<content, cstate, entry, bpc, fbuilt, fbuilding, fresh>>
Store(p) ==
  /\ hpc[p] = "read"
  /\ LET ok == IF FixD26
               THEN ~fbuilding[p] /\ fbuilt[p] = (cstate # "none") /\ cstate # "building"
               ELSE TRUE
     IN entry' = IF ok THEN [h |-> hval[p], built |-> fbuilt[p]] ELSE entry
  /\ Return(p, hval[p])
  /\ UNCHANGED <<content, cstate, bpc, fbuilt, fbuilding, hval, fresh>>

Next == Claim \/ MoveAside \/ Write1 \/ Write2 \/ Finish
        \/ \E p \in Procs : Flags(p) \/ Lookup(p) \/ ReadFile(p) \/ Store(p)
Spec == Init /\ [][Next]_vars

(* the builder records the hash of what it wrote *)
RecordedFresh == recorded \in {"none", "new"}
(* whoever hashes the file after it was built gets the hash of the new contents *)
ReadersFresh == \A r \in results : r[2] => r[3] = "new"
(* an entry tagged "built" that a later reader would trust describes the new contents *)
EntrySound == (cstate = "built" /\ entry # Nil /\ entry.built) => entry.h = "new"
=========================================================================
