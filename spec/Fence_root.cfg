SPECIFICATION Spec
CONSTANTS
  Stragglers = {"s1", "s2"}
  Kind = "root"
  CloseAtReturn = TRUE
  LockedFlip = TRUE
INVARIANT ReturnedIsRecorded
INVARIANT RootReturnedBeforeWrite
INVARIANT FencedAfterClose
PROPERTY NothingAfterClose
CHECK_DEADLOCK TRUE
