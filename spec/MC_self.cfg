SPECIFICATION Spec
CONSTANTS
  CachePath <- CP
  OpenKF <- NoKF
  Targets <- T_self
  QPaths <- Q_self
  ExtPaths <- X_self
  Kinds = {"is_dir"}
  Cmps = {"METADATA"}
  Contents = {"c1"}
  Sizes = {4}
  Mts = {1}
  FNames0 = {"f"}
  FNames1 = {"g"}
  VerVals <- V_none
  MaxStmts = 2
  MaxRootStmts = 1
  RootQueries = FALSE
  MaxBuilds = 2
  MaxExt = 0
  MaxCleans = 0
  Verbose = FALSE
  AllowKeepMeta = FALSE
INVARIANT NoViolation
INVARIANT InvView
INVARIANT InvAtomic
INVARIANT InvClaims
INVARIANT InvCache
INVARIANT InvDiskWF
PROPERTY RecChangesOnlyAtCommitOrClean
VIEW MCView
CHECK_DEADLOCK FALSE
