---------------------------- MODULE FBBackup ----------------------------
(***************************************************************************)
(* The backup store of a build (file_builder/file_backups.py): every file   *)
(* a build moves aside goes to a slot of a private temporary directory and  *)
(* restore_all puts every one of them back (C02, C03, C09).                 *)
(*                                                                         *)
(* 1. Slot naming.  back_up_and_remove turns the slot number v into a path: *)
(*    while v >= 128 a directory component v % 128 is split off, the rest   *)
(*    names the file.  Name must be injective or one backup overwrites      *)
(*    another (NameInjective, checked for every v <= MaxIdx; bound to the   *)
(*    code by FBBackupTrace on slot numbers beyond 128^2).                  *)
(* 2. Slot allocation.  Reading the counter and advancing it is one locked  *)
(*    step (AtomicSlot); the rename happens outside the lock.  With         *)
(*    AtomicSlot = FALSE (counter advanced only after the rename) two       *)
(*    threads pick the same slot and the second rename destroys the first   *)
(*    backup: NoLostBackup fails (selftest).                                *)
(* 3. Restore order.  restore_all replays the list front to back with       *)
(*    os.replace, so for a path that was moved aside twice the *later*      *)
(*    backup wins; the pre-build content survives only if no path is backed *)
(*    up twice in one build, which is why the builder must never move its   *)
(*    own in-progress output aside (defect D23): RestoreGivesOldest states   *)
(*    the condition.  Under threads a second backup of a path cannot be     *)
(*    excluded (D32, D33); since repair D33 restore_all restores the oldest *)
(*    backup of a path only (FirstOnly), and RestoreGivesOldest holds with  *)
(*    OncePerPath = FALSE as well (Backup_twice_first.cfg) - as long as the *)
(*    thread that moved a file is the one that writes the new one.  When    *)
(*    the writer is another thread (the claimer of the path, while the      *)
(*    mover is a _make_room of a sibling) and a *second* mover exists, the  *)
(*    two appends can come in the wrong order (Backup_twice_other.cfg       *)
(*    violates RestoreGivesOldest: a design-level observation that needs    *)
(*    three threads with two dependent directory-to-file swaps and was not  *)
(*    reproduced on the code).  Appending the entry in the locked step that *)
(*    picks the slot instead (AppendFirst) does not close it either         *)
(*    (Backup_twice_appendfirst.cfg): the order of the appends says nothing *)
(*    about the order of the moves unless the lock is held across the move. *)
(*    Both configurations are negative controls of the selftest.  The       *)
(*    positive configuration of that shape, Backup_twice_first.cfg (two     *)
(*    threads, writer = mover, FirstOnly), is part of C02's quick check.    *)
(***************************************************************************)
EXTENDS Integers, Sequences, FiniteSets, TLC
Gone == -1

CONSTANTS Threads,      \* worker threads
          PerThread,    \* files each thread moves aside
          MaxIdx,       \* NameInjective is checked for slot numbers 0..MaxIdx
          AtomicSlot,   \* TRUE: as built
          Paths,        \* paths that get moved aside (a thread may pick any)
          OncePerPath,  \* TRUE: the builder never moves the same path aside twice in a build (intended since D23; under
                        \* threads the check and the move are not atomic, so it does happen: D32, D33)
          WriterIsMover, MaxGen,
          AppendFirst,  \* design variant (not built): the entry is appended in the locked step that picks the slot
                        \* (FALSE: as built - appended after the move)
          FirstOnly     \* TRUE: restore_all restores the oldest backup of a path only (as built after D33)

RECURSIVE Comps(_), FileNo(_)
Comps(v) == IF v < 128 THEN <<>> ELSE <<v % 128>> \o Comps(v \div 128)
FileNo(v) == IF v < 128 THEN v ELSE FileNo(v \div 128)
Name(v) == [dirs |-> Comps(v), file |-> FileNo(v)]
NameInjective == Cardinality({Name(v) : v \in 0..MaxIdx}) = MaxIdx + 1
ASSUME NameInjective        \* state-independent: evaluated once

VARIABLES next,      \* _next_backup_index
          pc,        \* thread -> "idle" | "rename" | "append"
          slot,      \* thread -> slot read
          todo,      \* thread -> backups still to make
          cur,       \* thread -> path being moved aside
          store,     \* slot name -> [path, gen]: what lies in the temporary directory
          backups,   \* _backups: sequence of [path, name]
          disk,      \* path -> generation of the content at that path (0 = pre-build), or Gone
          gen,       \* generation counter of rewrites
          lost       \* a rename overwrote an existing backup
vars == <<next, pc, slot, todo, cur, store, backups, disk, gen, lost>>

Init == /\ next = 0
        /\ pc = [t \in Threads |-> "idle"]
        /\ slot = [t \in Threads |-> 0]
        /\ todo = [t \in Threads |-> PerThread]
        /\ cur = [t \in Threads |-> CHOOSE p \in Paths : TRUE]
        /\ store = <<>>
        /\ backups = <<>>
        /\ disk = [p \in Paths |-> 0]
        /\ gen = 0
        /\ lost = FALSE

Moved == {backups[i].path : i \in DOMAIN backups} \cup {cur[t] : t \in {u \in Threads : pc[u] # "idle"}}

(* with self._lock: value = next; next += 1 *)
ReadSlot(t) ==
  /\ pc[t] = "idle" /\ todo[t] > 0
  /\ \E p \in Paths :
       /\ disk[p] # Gone
       /\ OncePerPath => p \notin Moved
       /\ cur' = [cur EXCEPT ![t] = p]
  /\ slot' = [slot EXCEPT ![t] = next]
  /\ next' = IF AtomicSlot THEN next + 1 ELSE next
  /\ pc' = [pc EXCEPT ![t] = "rename"]
  /\ backups' = IF AppendFirst THEN Append(backups, [path |-> cur'[t], name |-> Name(next)]) ELSE backups
  /\ UNCHANGED <<todo, store, disk, gen, lost>>

(* os.replace(filename, backup_filename) - outside the lock; when the file is gone meanwhile (another thread *)
(* moved it) back_up_and_remove returns False and records nothing                                          *)
RenameMissing(t) ==
  /\ pc[t] = "rename" /\ disk[cur[t]] = Gone
  /\ next' = IF AtomicSlot THEN next ELSE next + 1
  /\ todo' = [todo EXCEPT ![t] = @ - 1]
  /\ pc' = [pc EXCEPT ![t] = "idle"]
  /\ backups' = IF AppendFirst THEN SelectSeq(backups, LAMBDA b : b.name # Name(slot[t])) ELSE backups
  /\ UNCHANGED <<slot, cur, store, disk, gen, lost>>
Rename(t) ==
  /\ pc[t] = "rename" /\ disk[cur[t]] # Gone
  /\ LET n == Name(slot[t]) IN
     /\ lost' = (lost \/ n \in DOMAIN store)
     /\ store' = [m \in DOMAIN store \cup {n} |-> IF m = n THEN [path |-> cur[t], gen |-> disk[cur[t]]] ELSE store[m]]
  /\ disk' = [disk EXCEPT ![cur[t]] = Gone]
  /\ next' = IF AtomicSlot THEN next ELSE next + 1
  /\ pc' = [pc EXCEPT ![t] = "append"]
  /\ UNCHANGED <<slot, todo, cur, backups, gen>>

(* with self._lock: _backups.append(...); afterwards the build writes a new file at that path *)
AppendBackup(t) ==
  /\ pc[t] = "append"
  /\ backups' = IF AppendFirst THEN backups ELSE Append(backups, [path |-> cur[t], name |-> Name(slot[t])])
  /\ gen' = IF WriterIsMover THEN gen + 1 ELSE gen
  /\ disk' = IF WriterIsMover THEN [disk EXCEPT ![cur[t]] = gen + 1] ELSE disk
  /\ todo' = [todo EXCEPT ![t] = @ - 1]
  /\ pc' = [pc EXCEPT ![t] = "idle"]
  /\ UNCHANGED <<next, slot, cur, store, lost>>

(* WriterIsMover = TRUE: the thread that moved a file aside is the one that writes the new file (a call     *)
(* replacing its own target).  FALSE: the new file is written by whoever claimed the path, at any time      *)
(* after the old one is gone - the mover may be another thread (_make_room, _make_dirs).                    *)
WriteNew(p) ==
  /\ ~WriterIsMover /\ disk[p] = Gone /\ gen < MaxGen
  /\ gen' = gen + 1
  /\ disk' = [disk EXCEPT ![p] = gen + 1]
  /\ UNCHANGED <<next, pc, slot, todo, cur, store, backups, lost>>
Next == \/ \E t \in Threads : ReadSlot(t) \/ Rename(t) \/ RenameMissing(t) \/ AppendBackup(t)
        \/ \E p \in Paths : WriteNew(p)
Spec == Init /\ [][Next]_vars

(* restore_all: front to back, os.replace(backup, original); with FirstOnly a later backup of a path that *)
(* has been restored already is skipped (it holds contents written during the build)                     *)
RECURSIVE RestoreF(_, _, _, _)
RestoreF(d, st, i, done) ==
  IF i > Len(backups) THEN d
  ELSE LET b == backups[i] IN
       IF FirstOnly /\ b.path \in done THEN RestoreF(d, st, i + 1, done)
       ELSE IF b.name \in DOMAIN st
       THEN RestoreF([d EXCEPT ![b.path] = st[b.name].gen], [m \in DOMAIN st \ {b.name} |-> st[m]], i + 1, done \cup {b.path})
       ELSE RestoreF(d, st, i + 1, done \cup {b.path})
Restore(d, st, i) == RestoreF(d, st, i, {})
Quiescent == \A t \in Threads : pc[t] = "idle"

NoLostBackup == ~lost
SlotsDistinct == \A t1, t2 \in Threads : (t1 # t2 /\ pc[t1] # "idle" /\ pc[t2] # "idle") => slot[t1] # slot[t2]
(* after a rollback every path that was moved aside holds its pre-build content again *)
RestoreGivesOldest ==
  Quiescent => \A i \in DOMAIN backups : Restore(disk, store, 1)[backups[i].path] = 0
=========================================================================
