---------------------------- MODULE FBBackup ----------------------------
(***************************************************************************)
(* The backup store of a build (file_builder/file_backups.py): every file   *)
(* a build moves aside goes to a slot of a private temporary directory and  *)
(* restore_all puts every one of them back (C02, C03, C09).                 *)
(*                                                                         *)
(* 1. Slot naming.  back_up_and_remove turns the slot number v into a path: *)
(*    while v >= 128 a directory component v % 128 is split off, the rest   *)
(*    names the file.  Name must be injective or one backup overwrites      *)
(*    another (NameInjective, checked for every v <= MaxIdx; bound to the   *)
(*    code by FBBackupTrace on slot numbers beyond 128^2).                  *)
(* 2. Slot allocation.  Reading the counter and advancing it is one locked  *)
(*    step (AtomicSlot); the rename happens outside the lock.  With         *)
(*    AtomicSlot = FALSE (counter advanced only after the rename) two       *)
(*    threads pick the same slot and the second rename destroys the first   *)
(*    backup: NoLostBackup fails (selftest).                                *)
(* 3. Restore order.  restore_all replays the list front to back with       *)
(*    os.replace, so for a path that was moved aside twice the *later*      *)
(*    backup wins; the pre-build content survives only if no path is backed *)
(*    up twice in one build, which is why the builder must never move its   *)
(*    own in-progress output aside (defect D23): RestoreGivesOldest states   *)
(*    the condition.                                                        *)
(***************************************************************************)
EXTENDS Integers, Sequences, FiniteSets, TLC
Gone == -1

CONSTANTS Threads,      \* worker threads
          PerThread,    \* files each thread moves aside
          MaxIdx,       \* NameInjective is checked for slot numbers 0..MaxIdx
          AtomicSlot,   \* TRUE: as built
          Paths,        \* paths that get moved aside (a thread may pick any)
          OncePerPath   \* TRUE: the builder never moves the same path aside twice in a build (as built after D23)

RECURSIVE Comps(_), FileNo(_)
Comps(v) == IF v < 128 THEN <<>> ELSE <<v % 128>> \o Comps(v \div 128)
FileNo(v) == IF v < 128 THEN v ELSE FileNo(v \div 128)
Name(v) == [dirs |-> Comps(v), file |-> FileNo(v)]
NameInjective == Cardinality({Name(v) : v \in 0..MaxIdx}) = MaxIdx + 1
ASSUME NameInjective        \* state-independent: evaluated once

VARIABLES next,      \* _next_backup_index
          pc,        \* thread -> "idle" | "rename" | "append"
          slot,      \* thread -> slot read
          todo,      \* thread -> backups still to make
          cur,       \* thread -> path being moved aside
          store,     \* slot name -> [path, gen]: what lies in the temporary directory
          backups,   \* _backups: sequence of [path, name]
          disk,      \* path -> generation of the content at that path (0 = pre-build), or Gone
          gen,       \* generation counter of rewrites
          lost       \* a rename overwrote an existing backup
vars == <<next, pc, slot, todo, cur, store, backups, disk, gen, lost>>

Init == /\ next = 0
        /\ pc = [t \in Threads |-> "idle"]
        /\ slot = [t \in Threads |-> 0]
        /\ todo = [t \in Threads |-> PerThread]
        /\ cur = [t \in Threads |-> CHOOSE p \in Paths : TRUE]
        /\ store = <<>>
        /\ backups = <<>>
        /\ disk = [p \in Paths |-> 0]
        /\ gen = 0
        /\ lost = FALSE

Moved == {backups[i].path : i \in DOMAIN backups} \cup {cur[t] : t \in {u \in Threads : pc[u] # "idle"}}

(* with self._lock: value = next; next += 1 *)
ReadSlot(t) ==
  /\ pc[t] = "idle" /\ todo[t] > 0
  /\ \E p \in Paths :
       /\ disk[p] # Gone
       /\ OncePerPath => p \notin Moved
       /\ cur' = [cur EXCEPT ![t] = p]
  /\ slot' = [slot EXCEPT ![t] = next]
  /\ next' = IF AtomicSlot THEN next + 1 ELSE next
  /\ pc' = [pc EXCEPT ![t] = "rename"]
  /\ UNCHANGED <<todo, store, backups, disk, gen, lost>>

(* os.rename(filename, backup_filename) - outside the lock *)
Rename(t) ==
  /\ pc[t] = "rename"
  /\ LET n == Name(slot[t]) IN
     /\ lost' = (lost \/ n \in DOMAIN store)
     /\ store' = [m \in DOMAIN store \cup {n} |-> IF m = n THEN [path |-> cur[t], gen |-> disk[cur[t]]] ELSE store[m]]
  /\ disk' = [disk EXCEPT ![cur[t]] = Gone]
  /\ next' = IF AtomicSlot THEN next ELSE next + 1
  /\ pc' = [pc EXCEPT ![t] = "append"]
  /\ UNCHANGED <<slot, todo, cur, backups, gen>>

(* with self._lock: _backups.append(...); afterwards the build writes a new file at that path *)
AppendBackup(t) ==
  /\ pc[t] = "append"
  /\ backups' = Append(backups, [path |-> cur[t], name |-> Name(slot[t])])
  /\ gen' = gen + 1
  /\ disk' = [disk EXCEPT ![cur[t]] = gen + 1]
  /\ todo' = [todo EXCEPT ![t] = @ - 1]
  /\ pc' = [pc EXCEPT ![t] = "idle"]
  /\ UNCHANGED <<next, slot, cur, store, lost>>

Next == \E t \in Threads : ReadSlot(t) \/ Rename(t) \/ AppendBackup(t)
Spec == Init /\ [][Next]_vars

(* restore_all: front to back, os.replace(backup, original) *)
RECURSIVE Restore(_, _, _)
Restore(d, st, i) ==
  IF i > Len(backups) THEN d
  ELSE LET b == backups[i] IN
       IF b.name \in DOMAIN st
       THEN Restore([d EXCEPT ![b.path] = st[b.name].gen], [m \in DOMAIN st \ {b.name} |-> st[m]], i + 1)
       ELSE Restore(d, st, i + 1)
Quiescent == \A t \in Threads : pc[t] = "idle"

NoLostBackup == ~lost
SlotsDistinct == \A t1, t2 \in Threads : (t1 # t2 /\ pc[t1] # "idle" /\ pc[t2] # "idle") => slot[t1] # slot[t2]
(* after a rollback every path that was moved aside holds its pre-build content again *)
RestoreGivesOldest ==
  Quiescent => \A i \in DOMAIN backups : Restore(disk, store, 1)[backups[i].path] = 0
=========================================================================
