---------------------------- MODULE FBRefMC ----------------------------
(***************************************************************************)
(* Model-checking wrapper of the contract FBRef.                           *)
(*                                                                         *)
(* The environment chooses a history (external mutations between builds,   *)
(* builds, failing builds, cleans) and - lazily - the *program*: the first *)
(* time a function (name, own version, target, observations so far) is     *)
(* reached the next statement is chosen freely and memoised; afterwards    *)
(* the same prefix takes the same statement.  That is exactly "cacheable   *)
(* functions are deterministic and functional", so TLC quantifies over all *)
(* programs within the statement bounds, including data-dependent ones.    *)
(*                                                                         *)
(* The reference always *executes* calls (from-scratch semantics).  At     *)
(* every call for which a record exists it remembers what the reuse rule   *)
(* predicts, and at the end of the call TLC checks                         *)
(*   ReuseSound    : ReplayValid  => executing reproduced exactly the      *)
(*                   record and the state that applying the record gives   *)
(*   ReuseComplete : ~ReplayValid (versions equal, outputs intact, no      *)
(*                   setup failure recorded) => executing gave a different *)
(*                   record                                                *)
(* i.e. the reuse rule of the contract is equivalent to "a from-scratch    *)
(* run reproduces the record" (C01, C05, C06, C13).  Every generated event *)
(* is also passed through Check, so the behaviours exported from here      *)
(* (hist) are by construction accepted by the trace specification.         *)
(***************************************************************************)
EXTENDS FBRef, Json
SE == INSTANCE SequencesExt

CONSTANTS Targets,      \* build_file targets (prefix-free except in the MC_self* configurations)
          QPaths,       \* paths that queries may ask about
          ExtPaths,     \* paths that external mutations may touch
          Kinds,        \* query kinds
          Cmps,         \* comparison modes
          Contents, Sizes, Mts,
          FNames0, FNames1,     \* function names callable from the root / from level-0 functions
          VerVals,      \* version terms (TNone = absent)
          MaxStmts, MaxRootStmts, RootQueries, MaxBuilds, MaxExt, MaxCleans,
          Verbose,       \* TRUE (simulation configs): print a tag whenever a reuse prediction is checked,
                         \* so that the evidence can show ReuseSound / ReuseComplete were not vacuous
          AllowKeepMeta  \* TRUE: the environment may change the bytes of a file while keeping
                         \* its size and mtime (the documented blind spot of METADATA; C13)

VARIABLES s, memo, preds, hist, ne, nc, xc, bad
vars == <<s, memo, preds, hist, ne, nc, xc, bad>>

CP == <<"k">>
NoKF == {}

Ev(r) == r      \* events are plain records

EntriesOf(fs) ==
  LET ps == SE!SetToSeq(DOMAIN fs)
  IN [i \in DOMAIN ps |->
        IF fs[ps[i]].t = "dir" THEN [p |-> ps[i], t |-> "dir", c |-> "", sz |-> 0, mt |-> 0]
        ELSE [p |-> ps[i], t |-> "file", c |-> fs[ps[i]].c, sz |-> fs[ps[i]].sz, mt |-> fs[ps[i]].mt]]

CSer(disk) == IF IsFile(disk, CachePath) THEN disk[CachePath].mt ELSE 0

Init == /\ s = InitState
        /\ memo = {}
        /\ preds = <<>>
        /\ hist = <<>>
        /\ ne = 0 /\ nc = 0 /\ xc = 0
        /\ bad = ""

Note(c) == IF bad # "" THEN bad ELSE c

-----------------------------------------------------------------------------
(* environment between builds *)
ExtStep ==
  /\ s.ph = "idle" /\ ne < MaxExt
  /\ \E p \in ExtPaths :
       \/ \E c \in Contents, sz \in Sizes :
            \* an external write always carries a fresh modification time (MetaFaithful)
            LET mt == 100 + xc IN
            /\ p # CachePath
            /\ IsDir(s.disk, Parent(p)) /\ ~IsDir(s.disk, p)
            /\ s' = [s EXCEPT !.disk = Put(@, p, FileNode(c, sz, mt))]
            /\ hist' = Append(hist, [h |-> "ext", do |-> "write", p |-> p, c |-> c, sz |-> sz, mt |-> mt])
       \/ \E c \in Contents :
            /\ AllowKeepMeta /\ p # CachePath /\ IsFile(s.disk, p) /\ s.disk[p].c # c
            /\ s' = [s EXCEPT !.disk = Put(@, p, [s.disk[p] EXCEPT !.c = c])]
            /\ hist' = Append(hist, [h |-> "ext", do |-> "rewrite_keep_meta", p |-> p, c |-> c,
                                     sz |-> s.disk[p].sz, mt |-> s.disk[p].mt])
       \/ /\ IsFile(s.disk, p)
          /\ s' = [s EXCEPT !.disk = Remove(@, {p})]
          /\ hist' = Append(hist, [h |-> "ext", do |-> "delete", p |-> p, c |-> "", sz |-> 0, mt |-> 0])
       \/ /\ IsDir(s.disk, Parent(p)) /\ ~Has(s.disk, p) /\ p # CachePath
          /\ s' = [s EXCEPT !.disk = Put(@, p, DirNode)]
          /\ hist' = Append(hist, [h |-> "ext", do |-> "mkdir", p |-> p, c |-> "", sz |-> 0, mt |-> 0])
       \/ /\ IsDir(s.disk, p) /\ Children(s.disk, p) = {}
          /\ s' = [s EXCEPT !.disk = Remove(@, {p})]
          /\ hist' = Append(hist, [h |-> "ext", do |-> "rmdir", p |-> p, c |-> "", sz |-> 0, mt |-> 0])
  /\ ne' = ne + 1 /\ xc' = xc + 1
  /\ UNCHANGED <<memo, preds, nc, bad>>

VersMaps == {TDict(<<>>)} \cup
            {TDict(<< <<TStr(f), v>> >>) : f \in FNames0 \cup FNames1, v \in VerVals \ {TNone}}

StartBuild ==
  /\ s.ph = "idle" /\ s.builds < MaxBuilds
  /\ \E vm \in VersMaps :
       LET e1 == [ev |-> "build", name |-> "B", vers |-> vm, bad |-> FALSE, disk |-> EntriesOf(s.disk),
                  cser |-> CSer(s.disk)]
           s1 == Apply(s, e1)
           e2 == [ev |-> "root_begin", sent |-> "", recv |-> ""]
       IN /\ s' = Apply(s1, e2)
          /\ bad' = Note(IF Check(s, e1) # "" THEN Check(s, e1) ELSE Check(s1, e2))
          /\ hist' = Append(hist, [h |-> "build", vers |-> vm])
  /\ ne' = 0
  /\ preds' = <<[on |-> FALSE]>>
  /\ UNCHANGED <<memo, nc, xc>>

CleanStep ==
  /\ s.ph = "idle" /\ nc < MaxCleans
  /\ LET after == IF CacheState(s.disk, s.rec, CSer(s.disk)) = "valid"
                  THEN CleanDisk(s.disk, s.rec) ELSE s.disk
         e == [ev |-> "clean", name |-> "B", noname |-> FALSE, bad |-> FALSE, tmp |-> TRUE, fault |-> FALSE,
               disk |-> EntriesOf(s.disk),
               cser |-> CSer(s.disk), out |-> "ok", err |-> "", after |-> EntriesOf(after)]
     IN /\ s' = Apply(s, e)
        /\ bad' = Note(Check(s, e))
  /\ hist' = Append(hist, [h |-> "clean"])
  /\ nc' = nc + 1 /\ ne' = 0
  /\ UNCHANGED <<memo, preds, xc>>

-----------------------------------------------------------------------------
(* statements *)
Level(st) == Len(st.stack) - 1            \* 0 = root function
Callees(st) == IF Level(st) = 0 THEN FNames0 ELSE IF Level(st) = 1 THEN FNames1 ELSE {}
NStmts(fr) == Len(fr.subs) + (IF fr.wrote = NilNode THEN 0 ELSE 1)
LastRaised(fr) == Len(fr.subs) > 0 /\ fr.subs[Len(fr.subs)].k # "q" /\ fr.subs[Len(fr.subs)].raised

QStmts == {[s |-> "q", kind |-> k, p |-> p, cmp |-> (IF k = "read" THEN c ELSE "METADATA"),
            td |-> TRUE] : k \in Kinds, p \in QPaths, c \in Cmps}
StmtSpace(st) ==
  LET fr == Top(st) IN
  (IF NStmts(fr) < (IF Level(st) = 0 THEN MaxRootStmts ELSE MaxStmts)
   THEN (IF Level(st) = 0 /\ ~RootQueries THEN {} ELSE QStmts)
        \cup {[s |-> "bf", p |-> p, f |-> f, cmp |-> c] : p \in Targets, f \in Callees(st), c \in Cmps}
        \cup {[s |-> "sb", f |-> f] : f \in Callees(st)}
        \cup (IF fr.kind = "bf" /\ fr.wrote = NilNode
              THEN {[s |-> "write", c |-> c, sz |-> z, mt |-> m] : c \in Contents, z \in Sizes, m \in Mts}
              ELSE {})
   ELSE {})
  \cup {[s |-> "ret"], [s |-> "raise"]}
  \cup (IF LastRaised(fr) THEN {[s |-> "prop"]} ELSE {})

MemoKey(st) == LET fr == Top(st) IN <<fr.f, VerOf(st.vers, fr.f), fr.kind, fr.p, fr.subs, fr.wrote>>

Allowed(st) ==
  IF Level(st) = 0 THEN StmtSpace(st)
  ELSE IF \E m \in memo : m[1] = MemoKey(st)
       THEN {(CHOOSE m \in memo : m[1] = MemoKey(st))[2]}
       ELSE StmtSpace(st)
MemoAfter(st, stmt) == IF Level(st) = 0 THEN memo ELSE memo \cup {<<MemoKey(st), stmt>>}

NoArgs == TList(<<>>)
NoKw == TDict(<<>>)

(* a query *)
DoQuery(stmt) ==
  LET a == Ans(SView(s), stmt)
      res == IF ~a.ok THEN [ok |-> FALSE, err |-> a.err, v |-> FALSE]
             ELSE [ok |-> TRUE, err |-> "", v |->
                    CASE stmt.kind \in {"exists", "is_file", "is_dir"} -> a.b
                      [] stmt.kind = "list_dir" -> SE!SetToSeq(a.names)
                      [] stmt.kind = "walk" ->
                           LET ws == SortSeq(SE!SetToSeq(a.w), LAMBDA x, y : Len(x[1]) < Len(y[1]))
                           IN [i \in DOMAIN ws |-> [d |-> ws[i][1], sd |-> SE!SetToSeq(ws[i][2]),
                                                    sf |-> SE!SetToSeq(ws[i][3])]]
                      [] stmt.kind = "get_size" -> a.n
                      [] stmt.kind = "read" -> "-"
                      [] OTHER -> FALSE]
      e == [ev |-> "q", kind |-> stmt.kind, p |-> stmt.p, cmp |-> stmt.cmp, td |-> stmt.td, res |-> res]
  IN /\ s' = Apply(s, e)
     /\ bad' = Note(Check(s, e))
     /\ UNCHANGED preds

(* a build_file / subbuild call: begin, then setup failure or invocation *)
DoCall(stmt) ==
  LET e1 == IF stmt.s = "bf"
            THEN [ev |-> "bf_begin", p |-> stmt.p, f |-> stmt.f, args |-> NoArgs, kw |-> NoKw, cmp |-> stmt.cmp]
            ELSE [ev |-> "sb_begin", f |-> stmt.f, args |-> NoArgs, kw |-> NoKw]
      s1 == Apply(s, e1)
      pd == s1.pend
  IN IF pd.serr # "" THEN
       LET e2 == [ev |-> IF stmt.s = "bf" THEN "bf_end" ELSE "sb_end", inv |-> FALSE, out |-> "raised",
                  err |-> pd.serr, same |-> FALSE, ret |-> TNone, real |-> "none", fault |-> FALSE, base |-> FALSE]
       IN /\ s' = Apply(s1, e2)
          /\ bad' = Note(IF Check(s, e1) # "" THEN Check(s, e1) ELSE Check(s1, e2))
          /\ UNCHANGED preds
     ELSE
       LET e2 == [ev |-> "invoke", recv |-> NoArgs, recvkw |-> NoKw, path_ok |-> TRUE]
           \* what the reuse rule predicts (state after serving the record from the cache)
           eR == [ev |-> IF stmt.s = "bf" THEN "bf_end" ELSE "sb_end", inv |-> FALSE, out |-> "ok",
                  err |-> "", same |-> FALSE, ret |-> IF pd.lk.found THEN pd.lk.r.ret ELSE TNone,
                  real |-> "file", fault |-> FALSE, base |-> FALSE]
           pred == IF pd.lk.found /\ pd.lk.valid
                   THEN [on |-> TRUE, valid |-> TRUE, fuzzy |-> pd.lk.fuzzy, r |-> pd.lk.r,
                         post |-> LET sR == Apply(s1, eR) IN
                                  [live |-> sR.live, outs |-> sR.outs, view |-> SView(sR),
                                   claimedF |-> sR.claimedF, claimedS |-> sR.claimedS,
                                   rec |-> Top(sR).subs[Len(Top(sR).subs)]]]
                   ELSE IF pd.lk.found
                   THEN [on |-> TRUE, valid |-> FALSE, fuzzy |-> pd.lk.fuzzy, r |-> pd.lk.r, post |-> Nil]
                   ELSE [on |-> FALSE]
       IN /\ s' = Apply(s1, e2)
          \* the reference executes even when the record is valid, so the
          \* ExecOnlyIfJustified clause of Check does not apply here
          /\ bad' = Note(IF Check(s, e1) # "" THEN Check(s, e1)
                         ELSE IF Check(s1, e2) \in {"", "ExecOnlyIfJustified"} THEN "" ELSE Check(s1, e2))
          /\ preds' = Append(preds, pred)

DoWrite(stmt) ==
  LET e == [ev |-> "write", c |-> stmt.c, sz |-> stmt.sz, mt |-> stmt.mt]
  IN /\ s' = Apply(s, e) /\ bad' = Note(Check(s, e)) /\ UNCHANGED preds

(* The disk under the view (only needed when Targets is not prefix-free, i.e. when a function can treat *)
(* its own target as a directory): nested calls below the function's own target that passed set-up made *)
(* that path a directory - it lingers on disk until the build ends even if they failed - so the         *)
(* function's own open() fails; so does the open() of a function whose target lies directly below the   *)
(* already written target of the enclosing function.                                                    *)
DirAtTarget(fr) == \E r \in AllRecs(fr.subs) : r.k = "bf" /\ ~r.sf /\ fr.p \in ProperAnc(r.p)
WriteFails(st) ==
  LET fr == Top(st) IN
  IF DirAtTarget(fr) THEN "IsADirectoryError"
  ELSE IF \E w \in WrittenTargets(st) : w \in ProperAnc(fr.p) THEN "NotADirectoryError"
  ELSE ""

(* properties of the reuse rule, evaluated when an executed call ends *)
RECURSIVE NoSF(_)
NoSF(ops) == \A i \in DOMAIN ops : ops[i].k = "q" \/ (~ops[i].sf /\ NoSF(ops[i].subs))
SubtreeVersEq(st, r) == \A x \in AllRecs(<<r>>) : VerEq(st, x.f)
SubtreeIntact(st, r) == \A x \in AllRecs(<<r>>) : x.k # "bf" \/ x.raised \/ Intact(st, x)

(* A re-executed output necessarily gets a new modification time, so "the   *)
(* same result" is judged modulo modification times (contents, sizes,       *)
(* answers, return values, claims all count).                                *)
StripCv(cv) == IF cv[1] = "M" THEN <<"M", cv[2]>> ELSE cv
RECURSIVE StripOps(_)
StripOp(op) ==
  IF op.k = "q" THEN [op EXCEPT !.ans.cv = StripCv(@)]
  ELSE [op EXCEPT !.cres = StripCv(@), !.subs = StripOps(@)]
StripOps(ops) == [i \in DOMAIN ops |-> StripOp(ops[i])]
StripFs(fs) == [p \in DOMAIN fs |-> IF fs[p].t = "file" THEN [fs[p] EXCEPT !.mt = 0] ELSE fs[p]]

ReuseVerdict(sEnd, pred, newrec, sBefore) ==
  IF ~pred.on \/ pred.fuzzy THEN ""
  ELSE IF pred.valid THEN
    IF StripOp(newrec) # StripOp(pred.post.rec) THEN "ReuseSound:record"
    ELSE IF StripFs(SView(sEnd)) # StripFs(pred.post.view) THEN "ReuseSound:view"
    ELSE IF sEnd.claimedF # pred.post.claimedF \/ sEnd.claimedS # pred.post.claimedS
      THEN "ReuseSound:claims"
    ELSE ""
  ELSE
    LET r == pred.r IN
    IF ~r.raised /\ r.f = newrec.f /\ SubtreeVersEq(sBefore, r) /\ SubtreeIntact(sBefore, r)
       /\ NoSF(r.subs) /\ Eq(r.args, newrec.args) /\ Eq(r.kw, newrec.kw)
       /\ newrec.subs = r.subs /\ newrec.ret = r.ret /\ newrec.raised = r.raised
    THEN "ReuseComplete"
    ELSE ""

(* the function ends: return / raise / propagate; then the call (or build) ends *)
DoEnd(stmt) ==
  LET fr == Top(s)
      lastErr == IF LastRaised(fr) THEN "UserError" ELSE ""
      xerr == IF stmt.s = "wfail" THEN stmt.err ELSE "UserError"     \* class of the exception that ends the function
      e1 == [ev |-> "fn_end", out |-> IF stmt.s = "ret" THEN "return" ELSE "raise",
             v |-> IF stmt.s = "ret" THEN TStr("r") ELSE TNone,
             x |-> IF stmt.s \in {"ret", "wfail"} THEN 0 ELSE 1,
             prop |-> stmt.s = "prop", err |-> IF stmt.s = "ret" THEN "" ELSE xerr]
      s1 == Apply(s, e1)
  IN IF Len(s.stack) > 1 THEN
       LET ok == stmt.s = "ret" /\ (fr.kind = "sb" \/ fr.wrote # NilNode)
           e2 == [ev |-> IF fr.kind = "bf" THEN "bf_end" ELSE "sb_end", inv |-> TRUE,
                  out |-> IF ok THEN "ok" ELSE "raised",
                  err |-> IF ok THEN "" ELSE IF stmt.s = "ret" THEN "RuntimeError" ELSE xerr,
                  same |-> ~ok /\ stmt.s # "ret", ret |-> IF ok THEN TStr("r") ELSE TNone,
                  real |-> IF ok THEN "file" ELSE IF fr.kind = "bf" /\ DirAtTarget(fr) THEN "dir" ELSE "none",
                  fault |-> FALSE, base |-> FALSE]
           s2 == Apply(s1, e2)
           newrec == Top(s2).subs[Len(Top(s2).subs)]
           rv == ReuseVerdict(s2, preds[Len(preds)], newrec, s)
           pr == preds[Len(preds)]
       IN /\ (Verbose /\ pr.on) => PrintT(<<"RV", IF pr.fuzzy THEN "fuzzy" ELSE IF pr.valid THEN "valid" ELSE "invalid", rv>>)
          /\ s' = s2
          /\ bad' = Note(IF Check(s, e1) # "" THEN Check(s, e1)
                         ELSE IF Check(s1, e2) # "" THEN Check(s1, e2) ELSE rv)
          /\ preds' = SubSeq(preds, 1, Len(preds) - 1)
     ELSE
       \* the root function ends: commit or roll back (the reference's disk)
       LET ser == s.builds + 1
           d == IF stmt.s = "ret"
                THEN Put(FinalView(s1), CachePath, FileNode("K", 1, ser))
                ELSE s.pre
           e2 == [ev |-> "build_end", inv |-> TRUE, disk |-> EntriesOf(d), cser |-> CSer(d), tmp |-> TRUE,
                  fault |-> FALSE,
                  out |-> IF stmt.s = "ret" THEN "returned" ELSE "raised",
                  v |-> IF stmt.s = "ret" THEN TStr("r") ELSE TNone,
                  err |-> IF stmt.s = "ret" THEN "" ELSE "UserError", same |-> stmt.s # "ret"]
       IN /\ s' = Apply(s1, e2)
          /\ bad' = Note(IF Check(s, e1) # "" THEN Check(s, e1) ELSE Check(s1, e2))
          /\ preds' = <<>>

Step ==
  /\ s.ph = "build" /\ Len(s.stack) > 0
  /\ \E stmt \in Allowed(s) :
       /\ memo' = MemoAfter(s, stmt)
       /\ hist' = Append(hist, [h |-> "stmt", st |-> stmt, lvl |-> Level(s)])
       /\ CASE stmt.s = "q" -> DoQuery(stmt)
            [] stmt.s \in {"bf", "sb"} -> DoCall(stmt)
            [] stmt.s = "write" -> IF WriteFails(s) = "" THEN DoWrite(stmt)
                                   ELSE DoEnd([s |-> "wfail", err |-> WriteFails(s)])
            [] OTHER -> DoEnd(stmt)
  /\ UNCHANGED <<ne, nc, xc>>

Next == ExtStep \/ StartBuild \/ CleanStep \/ Step
Spec == Init /\ [][Next]_vars

-----------------------------------------------------------------------------
(* properties *)
NoViolation == bad = ""                       \* Check accepts every generated event; reuse rule sound+complete
InvView == ViewWellFormed(s)
InvAtomic == AtomicOutputs(s)
InvClaims == ClaimsCoverLive(s)
InvCache == CacheNeverInView(s)
InvDiskWF == WellFormed(s.disk)
(* rollback and refusal leave the record alone; commit only after success *)
RecChangesOnlyAtCommitOrClean ==
  [][s'.rec # s.rec => (s.ph = "build" /\ s'.ph = "idle" /\ Top(s).kind = "root") \/ s.ph = "idle"]_vars

T_tiny == {<<"d", "y">>}
Q_tiny == {<<"d">>, <<"d", "y">>, <<"x">>}
X_tiny == {<<"x">>, <<"d">>, <<"d", "y">>, <<"k">>}
V_tiny == {TNone, TInt("1")}
Q_q == {<<"d">>, <<"d", "y">>}
X_q == {<<"d">>, <<"d", "y">>, <<"k">>}
V_none == {TNone}
T_self == {<<"d">>, <<"d", "y">>}          \* not prefix-free: d is a target and the parent of a target
Q_self == {<<"d">>}
X_self == {<<"d">>, <<"d", "y">>}
T_simself == {<<"d">>, <<"d", "y">>, <<"d", "y", "z">>, <<"x">>}
Q_simself == {<<"d">>, <<"d", "y">>, <<"x">>, <<"d", "y", "z">>}
X_simself == {<<"d">>, <<"d", "y">>, <<"x">>}
T_sim == {<<"x">>, <<"d", "y">>, <<"d", "e", "z">>}
Q_sim == {<<"x">>, <<"d">>, <<"d", "y">>, <<"d", "e">>, <<"d", "e", "z">>, <<"u">>}
X_sim == {<<"x">>, <<"d">>, <<"d", "y">>, <<"d", "e">>, <<"d", "e", "z">>, <<"u">>, <<"d", "u">>, <<"k">>}

MCView == <<s, memo, preds, ne, nc, xc, bad>>        \* hist is an observation variable
Bound == TLCGet("level") <= 60

(* spec -> code: complete behaviours are exported (as JSON) to be replayed on *)
(* the real FileBuilder by harness/fromtlc.py                                *)
HistDone ==
  /\ Len(hist) > 0 /\ s.ph = "idle" /\ s.builds = MaxBuilds
  /\ LET h == hist[Len(hist)] IN h.h = "clean" \/ (h.h = "stmt" /\ h.lvl = 0)
Export == HistDone => PrintT(<<"HIST", ToJson(hist)>>)
=========================================================================
