---------------------------- MODULE FBTrace ----------------------------
(***************************************************************************)
(* Trace specification: validates executions recorded from the real        *)
(* FileBuilder (harness/interp.py) against the contract FBRef.             *)
(*                                                                         *)
(* The trace file (env TRACE_FILE, nd-JSON) holds a *batch* of recorded    *)
(* scenario executions.  Every event is fully logged (arguments and        *)
(* results), so the trace spec is deterministic and validation is linear:  *)
(* one TLC state per consumed event.  For every trace exactly one verdict  *)
(* line is printed:  accepted, or rejected at event l with the name of the *)
(* first FBRef clause the event violates.                                  *)
(***************************************************************************)
EXTENDS FBRef, Json, IOUtils

CP_K == <<"k">>
CP_CK == <<"c", "k">>
CP_CCK == <<"c", "c2", "k">>      \* two directory levels that exist only for the cache file
KF_NONE == {}
KF_OPEN == {"KF-hidden-foreign-target"}

Traces == ndJsonDeserialize(IOEnv.TRACE_FILE)

VARIABLES tid, l, s, kf
tvars == <<tid, l, s, kf>>

TraceInit == tid = 1 /\ l = 1 /\ s = InitState /\ kf = {}

Verdict(kind, clause, also) ==
  PrintT(<<"VERDICT", Traces[tid].id, kind, l, clause, also,
           <<s.st.q, s.st.inv, s.st.invfound, s.st.reuse, s.st.sfail, s.st.commit, s.st.rollback,
             s.st.clean, s.st.refuse, s.st.nestedreuse, s.st.failrec>>, kf >>)

TraceNext ==
  /\ tid <= Len(Traces)
  /\ LET evs == Traces[tid].events IN
     IF l > Len(evs) THEN
        /\ Verdict("accepted", "", {})
        /\ tid' = tid + 1 /\ l' = 1 /\ s' = InitState /\ kf' = {}
     ELSE
        LET e == evs[l]
            c == Check(s, e)
            s2 == Apply(s, e)
            \* the contract's own state invariants: a recorded execution that drives the contract state out of
            \* them (possible only for an implementation that misbehaves) is rejected like any other violation
            inv == IF ~ViewWellFormed(s2) THEN "InvView"
                   ELSE IF ~AtomicOutputs(s2) THEN "InvAtomic"
                   ELSE IF ~ClaimsCoverLive(s2) THEN "InvClaims"
                   ELSE IF ~CacheNeverInView(s2) THEN "InvCache" ELSE ""
        IN IF c # "" THEN
              /\ Verdict("rejected", c, Fails(s, e))
              /\ tid' = tid + 1 /\ l' = 1 /\ s' = InitState /\ kf' = {}
           ELSE IF inv # "" THEN
              /\ Verdict("rejected", inv, {inv})
              /\ tid' = tid + 1 /\ l' = 1 /\ s' = InitState /\ kf' = {}
           ELSE /\ tid' = tid /\ l' = l + 1 /\ s' = s2
                /\ kf' = IF KnownFinding(s, e) = "" THEN kf ELSE kf \cup {KnownFinding(s, e)}

TraceSpec == TraceInit /\ [][TraceNext]_tvars

(* contract invariants (evaluated inside TraceNext for every step of every trace, so that a violation is a *)
(* verdict for that trace instead of the end of the whole batch; FBRefMC checks them as TLC invariants)   *)
InvView == ViewWellFormed(s)
InvAtomic == AtomicOutputs(s)
InvClaims == ClaimsCoverLive(s)
InvCache == CacheNeverInView(s)

Done == tid = Len(Traces) + 1
PostDone == TLCGet("stats").diameter >= 1
=========================================================================
