---------------------------- MODULE JsonValMC ----------------------------
(***************************************************************************)
(* Laws of the JSON value algebra (C18, C07), checked by TLC on every      *)
(* pair / triple of a value universe built over an adversarial atom set:   *)
(* None, False, True, 0, 1, 1.0, -0.0, "", "1", "a", 2^63, +inf.           *)
(* The state is a tuple of values, so each law is an ordinary invariant.   *)
(***************************************************************************)
EXTENDS JsonVal, TLC

Atoms == {TNone, TBool(FALSE), TBool(TRUE), TInt("0"), TInt("1"), TFloat("1", "1.0"),
          TFloat("0", "-0.0"), TStr(""), TStr("1"), TStr("a"), TInt("9223372036854775808"),
          TFloat("inf", "inf")}
SmallAtoms == {TNone, TBool(TRUE), TInt("1"), TFloat("1", "1.0"), TStr("1")}
KeyAtoms == {TStr("1"), TStr("a"), TInt("1"), TFloat("1", "1.0"), TBool(TRUE), TNone}

Seqs(S) == {<<>>} \cup {<<x>> : x \in S} \cup {<<x, y>> : x \in S, y \in S}
Lists1 == {TList(xs) : xs \in Seqs(SmallAtoms)} \cup {TTuple(xs) : xs \in Seqs(SmallAtoms)}
Dicts1 == {TDict(<<>>)} \cup {TDict(<< <<k, v>> >>) : k \in KeyAtoms, v \in SmallAtoms}
          \cup {TDict(<< <<k1, v1>>, <<k2, v2>> >>) :
                  k1 \in {TStr("1"), TInt("1"), TBool(TRUE)}, k2 \in {TStr("1"), TStr("a"), TFloat("1", "1.0")},
                  v1 \in {TInt("1"), TStr("1")}, v2 \in {TInt("1"), TFloat("1", "1.0")}}
Mid == {TList(<<>>), TTuple(<<TInt("1")>>), TList(<<TFloat("1", "1.0")>>), TDict(<<>>),
        TDict(<< <<TStr("a"), TInt("1")>> >>), TDict(<< <<TStr("a"), TFloat("1", "1.0")>> >>),
        TList(<<TBool(TRUE)>>)}
Nested == {TList(<<x, y>>) : x \in Mid, y \in Mid}
          \cup {TDict(<< <<TStr("a"), x>>, <<TStr("b"), y>> >>) : x \in Mid, y \in Mid}
          \cup {TDict(<< <<TStr("b"), y>>, <<TStr("a"), x>> >>) : x \in Mid, y \in Mid}
Val == Atoms \cup Lists1 \cup Dicts1 \cup Nested
ValT == Atoms \cup Mid \cup {TList(<<x, y>>) : x \in {TInt("1"), TFloat("1", "1.0"), TBool(TRUE)},
                                               y \in {TList(<<>>), TTuple(<<>>), TDict(<<>>)}}

VARIABLES v, w, u
vars == <<v, w, u>>

InitPairs == v \in Val /\ w \in Val /\ u = TNone
InitTriples == v \in ValT /\ w \in ValT /\ u \in ValT
Next == UNCHANGED vars
SpecPairs == InitPairs /\ [][Next]_vars
SpecTriples == InitTriples /\ [][Next]_vars

sv == San(v)
sw == San(w)
su == San(u)

RECURSIVE NoTuples(_)
NoTuples(t) == CASE t.k = "tuple" -> FALSE
                 [] t.k = "list" -> \A i \in DOMAIN t.xs : NoTuples(t.xs[i])
                 [] t.k = "dict" -> \A i \in DOMAIN t.kv : t.kv[i][1].k = "str" /\ NoTuples(t.kv[i][2])
                 [] OTHER -> TRUE
UniqueKeys(t) == t.k # "dict" \/ Cardinality(KeysOf(t)) = Len(t.kv)

AllJson == IsJson(v) /\ IsJson(w)
SanIdempotent == San(sv) = sv
SanNormalForm == NoTuples(sv) /\ UniqueKeys(sv)
SanPreservesEq == Eq(sv, sv)
EqReflexive == Eq(sv, sv)
EqSymmetric == Eq(sv, sw) = Eq(sw, sv)
EqTransitive == (Eq(sv, sw) /\ Eq(sw, su)) => Eq(sv, su)
CanonIffEq == Eq(sv, sw) <=> (Canon(sv) = Canon(sw))
TEqRefinesEq == TEq(sv, sw) => Eq(sv, sw)
BoolNeverNumber == (sv.k = "bool" /\ IsNum(sw)) => ~Eq(sv, sw)
IntEqualsFloat == (IsNum(sv) /\ IsNum(sw) /\ sv.n = sw.n) => Eq(sv, sw)
ListEqualsTuple == (IsSeqT(v) /\ IsSeqT(w) /\ v.xs = w.xs) => Eq(sv, sw)
(* key identity used for subbuilds and duplicate detection *)
KeyEqIffCanon == KeyEq("f", TList(<<v>>), TDict(<<>>), "f", TList(<<w>>), TDict(<<>>))
                   <=> (<<"f", Canon(San(TList(<<v>>))), Canon(San(TDict(<<>>)))>>
                        = <<"f", Canon(San(TList(<<w>>))), Canon(San(TDict(<<>>)))>>)
=========================================================================
