---------------------------- MODULE LockOrder ----------------------------
(***************************************************************************)
(* Deadlock freedom beyond the explored schedules (C09).  The cooperative  *)
(* scheduler detects a deadlock only in a schedule it runs; a lock-order    *)
(* inversion is a *potential* deadlock in some schedule nobody ran.  The    *)
(* harness therefore logs, over all threaded executions of a check, which   *)
(* lock role (the place in the library that created the lock) was acquired  *)
(* while which other role was held.  The library is deadlock-free for every *)
(* schedule if this "held-before" relation is acyclic - then the locks are  *)
(* always taken along one strict partial order - and it has to agree with   *)
(* the order documented in cache.py (files < subbuilds < created dirs).     *)
(* Nested locks of one role (two builders) are safe only if no pair of      *)
(* instances was ever taken in both orders (Same[i][2] = TRUE = inverted).  *)
(* Input (JSON, one object): [edges |-> <<<<held, acquired>>, ...>>,        *)
(*                            same |-> <<<<role, inverted>>, ...>>]         *)
(***************************************************************************)
EXTENDS Naturals, Sequences, FiniteSets, TLC, Json, IOUtils

In == JsonDeserialize(IOEnv.TRACE_FILE)
Edges == {<<In.edges[i][1], In.edges[i][2]>> : i \in DOMAIN In.edges}
Roles == {e[1] : e \in Edges} \cup {e[2] : e \in Edges}
Documented == <<"cache.py:_files_lock", "cache.py:_subbuilds_lock", "cache.py:_created_dirs_lock">>

RECURSIVE Reach(_, _)
Reach(frontier, seen) ==
  LET nxt == {e[2] : e \in {x \in Edges : x[1] \in frontier}} \ seen
  IN IF nxt = {} THEN seen ELSE Reach(nxt, seen \cup nxt)
ReachFrom(r) == Reach({r}, {})
Cyclic == {r \in Roles : r \in ReachFrom(r)}
Pos(r) == IF \E i \in DOMAIN Documented : Documented[i] = r
          THEN CHOOSE i \in DOMAIN Documented : Documented[i] = r ELSE 0
AgainstDoc == {e \in Edges : Pos(e[1]) > 0 /\ Pos(e[2]) > 0 /\ Pos(e[1]) > Pos(e[2])}
Inverted == {i \in DOMAIN In.same : In.same[i][2]}

Verdict ==
  IF Cyclic # {} THEN <<"LockOrderAcyclic", CHOOSE r \in Cyclic : TRUE>>
  ELSE IF AgainstDoc # {} THEN <<"LockOrderDocumented", (CHOOSE e \in AgainstDoc : TRUE)[1]>>
  ELSE IF Inverted # {} THEN <<"LockOrderSameRole", In.same[CHOOSE i \in Inverted : TRUE][1]>>
  ELSE <<"", "">>

VARIABLE done
Init == done = FALSE
Next == ~done /\ PrintT(<<"LVERDICT", Verdict[1], Verdict[2], Cardinality(Edges)>>) /\ done' = TRUE
Spec == Init /\ [][Next]_done
=========================================================================
