SPECIFICATION Spec
CONSTANTS
  CachePath <- CP
  OpenKF <- NoKF
  Targets <- T_tiny
  QPaths <- Q_q
  ExtPaths <- X_q
  Kinds = {"read"}
  Cmps = {"METADATA"}
  Contents = {"c1", "c2"}
  Sizes = {4}
  Mts = {1}
  FNames0 = {"f"}
  FNames1 = {}
  VerVals <- V_tiny
  MaxStmts = 2
  MaxRootStmts = 1
  RootQueries = FALSE
  MaxBuilds = 2
  MaxExt = 1
  MaxCleans = 0
  Verbose = FALSE
  AllowKeepMeta = FALSE
INVARIANT NoViolation
INVARIANT InvView
INVARIANT InvAtomic
INVARIANT InvClaims
INVARIANT InvCache
INVARIANT InvDiskWF
PROPERTY RecChangesOnlyAtCommitOrClean
VIEW MCView
CHECK_DEADLOCK FALSE
