SPECIFICATION Spec
CONSTANTS
  Hashers = {h1, h2}
  MaxHashes = 2
  FixD26 = FALSE
INVARIANT RecordedFresh
INVARIANT ReadersFresh
INVARIANT EntrySound
CHECK_DEADLOCK FALSE
