SPECIFICATION SpecTriples
INVARIANT EqTransitive
INVARIANT EqSymmetric
INVARIANT CanonIffEq
CHECK_DEADLOCK FALSE
