---------------------------- MODULE FBSlotApa ----------------------------
(***************************************************************************)
(* Slot allocation of the backup store (FBBackup, part 2) once more, in    *)
(* the fragment Apalache handles, to discharge the safety argument without *)
(* a bound on the number of backups: IndInv is inductive (Init => IndInv,  *)
(* IndInv /\ Next => IndInv') and implies SlotsDistinct, for three threads   *)
(* and any number of back_up_and_remove calls.                             *)
(*   apalache-mc check --init=Init --inv=IndInv --length=0 FBSlotApa.tla   *)
(*   apalache-mc check --init=IndInv --inv=IndInv --length=1 FBSlotApa.tla *)
(***************************************************************************)
EXTENDS Integers

Threads == {"t1", "t2", "t3"}

VARIABLES
  \* @type: Int;
  next,
  \* @type: Str -> Str;
  pc,
  \* @type: Str -> Int;
  slot

Init == /\ next = 0
        /\ pc = [t \in Threads |-> "idle"]
        /\ slot = [t \in Threads |-> 0]

(* with self._lock: value = next; next += 1 *)
ReadSlot(t) == /\ pc[t] = "idle"
               /\ slot' = [slot EXCEPT ![t] = next]
               /\ next' = next + 1
               /\ pc' = [pc EXCEPT ![t] = "rename"]
(* os.rename(filename, backup_filename), outside the lock; the slot is then used for good *)
Rename(t) == /\ pc[t] = "rename"
             /\ pc' = [pc EXCEPT ![t] = "idle"]
             /\ UNCHANGED <<next, slot>>
Next == \E t \in Threads : ReadSlot(t) \/ Rename(t)

(* Slots are handed out in increasing order and never twice: a slot u is "taken" iff u < next, so the   *)
(* rename of a thread can only collide with a thread that holds the same slot at the same time.        *)
TypeOK == /\ next \in Nat
          /\ pc \in [Threads -> {"idle", "rename"}]
          /\ slot \in [Threads -> Nat]
IndInv == /\ TypeOK
          /\ \A t \in Threads : pc[t] = "rename" => slot[t] < next
          /\ \A t1, t2 \in Threads : (t1 # t2 /\ pc[t1] = "rename" /\ pc[t2] = "rename") => slot[t1] # slot[t2]
SlotsDistinct == \A t1, t2 \in Threads : (t1 # t2 /\ pc[t1] = "rename" /\ pc[t2] = "rename") => slot[t1] # slot[t2]
=========================================================================
