SPECIFICATION Spec
CONSTANTS
  Threads = {t1, t2}
  PerThread = 2
  MaxIdx = 10
  AtomicSlot = TRUE
  Paths = {p1, p2}
  OncePerPath = FALSE
  FirstOnly = TRUE
  WriterIsMover = FALSE
  MaxGen = 4
  AppendFirst = FALSE
INVARIANT NoLostBackup
INVARIANT SlotsDistinct
INVARIANT RestoreGivesOldest
CHECK_DEADLOCK FALSE
