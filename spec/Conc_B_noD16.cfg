SPECIFICATION Spec
CONSTANTS
  Workers <- W2
  TargetDir <- TD_B
  TargetName <- TN_B
  MayFail <- None
  InitDirs <- None
  StaleDirs <- None
  FixD7 = TRUE
  FixD16 = FALSE
  FixD17 = TRUE
  FixD18 = TRUE
INVARIANT TypeOK
INVARIANT ClaimOnce
INVARIANT WinnerOutputIntact
INVARIANT DirsOwned
INVARIANT StaleOwned
INVARIANT CountsExact
CHECK_DEADLOCK TRUE
