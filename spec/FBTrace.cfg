SPECIFICATION TraceSpec
CONSTANT CachePath <- CP_K
INVARIANT InvView
INVARIANT InvAtomic
INVARIANT InvClaims
INVARIANT InvCache
CHECK_DEADLOCK FALSE
