SPECIFICATION TraceSpec
CONSTANT CachePath <- CP_K
CONSTANT OpenKF <- KF_NONE
CHECK_DEADLOCK FALSE
