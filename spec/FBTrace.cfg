SPECIFICATION TraceSpec
CONSTANT CachePath <- CP_K
CONSTANT OpenKF <- KF_OPEN
INVARIANT InvView
INVARIANT InvAtomic
INVARIANT InvClaims
INVARIANT InvCache
CHECK_DEADLOCK FALSE
